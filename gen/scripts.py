"""Grammar-driven generator of well-formed, terminating Bardolph scripts.

No reference interpreter: the claimed checks compare run against run.  Every
device command is tagged with a unique kelvin (colour commands) or duration
(power commands) value so that each datagram on the simulated wire can be
attributed to one statement of the source.

Constructs the generator steers clear of (DESIGN.md section 4): `return`
inside loops, routine definitions inside blocks, identifiers equal to
token-class names, `%` without white space, `units` switches while the time
register holds a pattern, pause/breakpoint, [random ...].
"""

DEFAULT_OPTS = {
    'max_statements': 14,
    'max_depth': 2,
    'delays': [0],              # values for `time N`
    'p_delay': 0.0,             # probability of a `time N` before a command
    'get': True,
    'print': True,
    'loops': True,
    'routines': True,
    'ifs': True,
    'matrix': True,
    'zones': True,
    'unknown_names': 0.0,       # probability of an unknown target name
    'mismatch': 0.0,            # probability of a capability mismatch
    'units_raw': 0.15,
    'time_at': [],              # list of pattern strings allowed
    'reassign_after_get': False,
    'builtins': 0.5,            # probability that a script calls built-ins
    'extras': 0.3,              # per-feature probability, see EXTRAS
}

# Less-travelled language features, each switched on per script (swarm
# style) with probability opts['extras'].
EXTRAS = ('macros', 'strvars', 'functions', 'nested_calls', 'break',
          'interp', 'elseif', 'logic', 'wait', 'iter')


class ScriptGen:
    def __init__(self, rng, population, opts=None):
        self.rng = rng
        self.pop = population
        self.o = dict(DEFAULT_OPTS)
        self.o.update(opts or {})
        self.tag = 0
        self.n = 0
        self.vars = []          # numeric variables in scope (globals)
        self.routines = []      # (name, nparams)
        self.raw = False
        # a script either calls built-in functions or uses their names for
        # its own variables (both are legal, not in one script)
        self.use_builtins = rng.random() < self.o['builtins']
        self.shadow_builtins = (not self.use_builtins) and rng.random() < 0.2
        # register words are case-sensitive: `Kelvin` is an ordinary name
        self.caps_names = rng.random() < 0.12
        self.lights = [b['label'] for b in population]
        self.groups = sorted({b.get('group', 'Group') for b in population})
        self.locs = sorted({b.get('location', 'Home') for b in population})
        self.plain = [b['label'] for b in population
                      if b.get('product', 27) == 27]
        self.mz = [b for b in population if b.get('product') == 32]
        self.mat = [b for b in population if b.get('product') == 57]
        self.commands = []      # (tag, kind, target text)
        self.fx = {f for f in EXTRAS if rng.random() < self.o['extras']} \
            if self.o['extras'] else set()
        self.num_macros = []    # (name, value)
        self.name_macros = []   # (identifier, kind) kind: light|group
        self.functions = []     # (name, k): returns its argument plus k
        self.uniq = 0

    # -- helpers ----------------------------------------------------------
    def _num(self, lo, hi):
        return self.rng.randint(lo, hi)

    def _next_tag(self):
        self.tag += 1
        return self.tag

    def _quote(self, name):
        return '"{}"'.format(name)

    def _light(self, pool=None):
        r = self.rng
        if r.random() < self.o['unknown_names']:
            return r.choice(['Nobody', 'Ghost', 'zz-top'])
        pool = pool or self.lights
        return r.choice(pool)

    def _target(self):
        """Returns (text, kind) for set/on/off."""
        r = self.rng
        k = r.choice(['all', 'light', 'light', 'group', 'location', 'and'])
        unk = r.random() < self.o['unknown_names']
        if k == 'all':
            return 'all', 'all'
        if k == 'light':
            ids = [n for n, kk in self.name_macros if kk == 'light']
            if ids and r.random() < 0.4:
                return r.choice(ids), 'light'
            return self._quote(self._light()), 'light'
        if k == 'group':
            ids = [n for n, kk in self.name_macros if kk == 'group']
            if ids and not unk and r.random() < 0.4:
                return 'group ' + r.choice(ids), 'group'
            g = 'NoGroup' if unk else r.choice(self.groups)
            return 'group ' + self._quote(g), 'group'
        if k == 'location':
            loc = 'Nowhere' if unk else r.choice(self.locs)
            return 'location ' + self._quote(loc), 'location'
        parts = []
        for _ in range(r.randint(2, 3)):
            kk = r.choice(['light', 'light', 'group', 'location'])
            if kk == 'light':
                parts.append(self._quote(self._light()))
            elif kk == 'group':
                parts.append('group ' + self._quote(r.choice(self.groups)))
            else:
                parts.append('location ' + self._quote(r.choice(self.locs)))
        return ' and '.join(parts), 'and'

    def _value(self, lo, hi, allow_var=True):
        r = self.rng
        if allow_var and self.vars and r.random() < 0.25:
            v = r.choice(self.vars)
            return '{{{} % {} + {}}}'.format(v, max(hi - lo, 1), lo)
        fits = [n for n, v in self.num_macros if lo <= v <= hi]
        if fits and r.random() < 0.25:
            return r.choice(fits)
        if self.functions and hi - lo >= 5 and r.random() < 0.25:
            name, k = r.choice(self.functions)
            n = max(self._num(lo, hi), lo + k)
            return '[{} {}]'.format(name, n - k)
        if self.use_builtins and r.random() < 0.2:
            n = self._num(lo, hi)
            return r.choice([
                '[floor {}.7]'.format(n), '[round {}.2]'.format(n),
                '[trunc {}.9]'.format(n), '[ceil {}.0]'.format(n),
                '[cycle {}]'.format(n) if hi <= 359 else '[floor {}]'.format(n),
            ])
        return str(self._num(lo, hi))

    def _regs(self, kind):
        """Register settings before a command; always includes the tag."""
        r = self.rng
        out = []
        tag = self._next_tag()
        scale = 65535 if self.raw else None
        if r.random() < 0.6:
            out.append('hue ' + (self._value(0, 65535) if self.raw
                                 else self._value(0, 359)))
        if r.random() < 0.4:
            out.append('saturation ' + (self._value(0, 65535) if self.raw
                                        else self._value(0, 100)))
        if r.random() < 0.4:
            out.append('brightness ' + (self._value(0, 65535) if self.raw
                                        else self._value(0, 100)))
        if kind == 'power':
            # duration is the tag: raw -> ms, logical -> seconds
            out.append('duration {}'.format(tag if self.raw else tag))
        else:
            out.append('kelvin {}'.format(1500 + tag))
            if r.random() < 0.3:
                out.append('duration ' + self._value(0, 9))
        if self.o['p_delay'] and r.random() < self.o['p_delay']:
            d = r.choice(self.o['delays'])
            if self.raw:
                d = int(round(d * 1000))
            out.append('time {}'.format(d))
        r.shuffle(out)
        del scale
        return tag, ' '.join(out)

    # -- statements -------------------------------------------------------
    def command(self, depth, in_routine=False):
        r = self.rng
        choices = ['set', 'set', 'set', 'on', 'off']
        if self.o['get'] and self.plain:
            choices.append('get')
        if self.o['zones'] and (self.mz or self.o['mismatch']):
            choices.append('zone')
        if self.o['matrix'] and (self.mat or self.o['mismatch']):
            choices.append('matrix')
            if not in_routine:
                # a matrix block inside a routine makes the pinned compiler
                # forget the routine's parameters (Context.exit_matrix clears
                # the locals); C03's business, avoided here
                choices.append('matrix_block')
            if self.mat:
                # the colour every cell gets that a later matrix command
                # does not mention
                choices.append('default')
        if 'wait' in self.fx:
            choices.append('wait')
        k = r.choice(choices)
        self.n += 1
        if k == 'wait':
            return 'wait'
        if k == 'default':
            tag, regs = self._regs('color')
            return '{} set default'.format(regs)
        if k in ('set', 'on', 'off'):
            tag, regs = self._regs('power' if k != 'set' else 'color')
            tgt, tk = self._target()
            self.commands.append((tag, k, tgt))
            return '{} {} {}'.format(regs, k, tgt)
        if k == 'get':
            name = self._light(self.plain)
            if self.o['mismatch'] and r.random() < self.o['mismatch']:
                name = self._light()
            s = 'get ' + self._quote(name)
            if self.o['reassign_after_get']:
                if self.raw:
                    s += (' hue {} saturation {} brightness {} kelvin {}'
                          .format(self._num(0, 65535), self._num(0, 65535),
                                  self._num(0, 65535), self._num(1500, 9000)))
                else:
                    s += (' hue {} saturation {} brightness {} kelvin {}'
                          .format(self._num(0, 359), self._num(0, 100),
                                  self._num(0, 100), self._num(1500, 9000)))
            return s
        if k == 'zone':
            tag, regs = self._regs('color')
            mism = self.o['mismatch'] and r.random() < self.o['mismatch']
            if self.mz and not mism:
                b = r.choice(self.mz)
                nz = b.get('zones', 16)
                name = b['label']
            else:
                nz = 8
                name = self._light()
            a = r.randint(0, nz - 1)
            z = 'zone {}'.format(a)
            if r.random() < 0.6:
                z += ' {}'.format(r.randint(a, nz - 1))
            self.commands.append((tag, 'zone', name))
            return '{} set {} {}'.format(regs, self._quote(name), z)
        # matrix forms
        mism = self.o['mismatch'] and r.random() < self.o['mismatch']
        if self.mat and not mism:
            b = r.choice(self.mat)
            name, h, w = b['label'], b.get('tile_h', 6), b.get('tile_w', 5)
        else:
            name, h, w = self._light(), 6, 5
        tag, regs = self._regs('color')
        self.commands.append((tag, k, name))

        def spec():
            parts = []
            if r.random() < 0.7:
                a = r.randint(0, h - 1)
                parts.append('row {}'.format(a) if r.random() < 0.4 else
                             'row {} {}'.format(a, r.randint(a, h - 1)))
            if r.random() < 0.7 or not parts:
                a = r.randint(0, w - 1)
                parts.append('column {}'.format(a) if r.random() < 0.4 else
                             'column {} {}'.format(a, r.randint(a, w - 1)))
            return ' '.join(parts)
        if k == 'matrix':
            return '{} set {} {}'.format(regs, self._quote(name), spec())
        body = []
        for _ in range(r.randint(1, 3)):
            pre = ''
            if r.random() < 0.5:
                pre = 'hue {} '.format(self._num(0, 65535 if self.raw else 359))
            body.append('{}stage {}'.format(pre, spec()))
        return '{} set {} begin {} end'.format(
            regs, self._quote(name), ' '.join(body))

    def assign(self, depth=0, in_routine=False):
        """New variables are only introduced by unconditional top-level
        assignments, so every variable the generator later reads is
        definitely assigned at run time."""
        r = self.rng
        nested = depth > 0 or in_routine
        if nested:
            if self.vars:
                name = r.choice(self.vars)
            else:
                name = 'scratch'
        else:
            pool = ['va', 'vb', 'vc', 'counter', 'total']
            if self.shadow_builtins:
                pool += ['floor', 'round', 'sqrt']
            if self.caps_names:
                pool = ['Kelvin', 'Duration', 'Hue', 'Time', 'KELVIN',
                        'Brightness']
            name = r.choice(pool)
        if name in self.vars and r.random() < 0.5:
            expr = '{{{} + {}}}'.format(name, self._num(1, 9))
        elif self.vars and r.random() < 0.4:
            expr = '{{{} * {} - {}}}'.format(r.choice(self.vars),
                                             self._num(1, 5), self._num(0, 20))
        elif self.use_builtins and r.random() < 0.3:
            expr = r.choice(['[sqrt {}]'.format(self._num(0, 99)),
                             '[floor {}.5]'.format(self._num(0, 50)),
                             '[round {}.5]'.format(self._num(0, 50))])
        else:
            expr = str(self._num(0, 50))
        if name not in self.vars and not nested:
            self.vars.append(name)
        self.n += 1
        return 'assign {} {}'.format(name, expr)

    def print_stmt(self):
        r = self.rng
        self.n += 1
        k = r.choice(['print', 'println', 'printf', 'printf'])
        if k == 'printf' and r.random() < 0.3:
            # named fields read at run time: a variable or macro of this
            # script, or a name this script never defines (prints None)
            names = ['va', 'vb', 'counter', 'scratch', 'level', 'pa']
            names += [n for n, _v in self.num_macros]
            return 'printf "{{{}}}/{{{}}}\\n"'.format(r.choice(names),
                                                      r.choice(names))
        if k in ('print', 'println'):
            if self.vars and r.random() < 0.6:
                return '{} {}'.format(k, r.choice(self.vars))
            return '{} {}'.format(k, r.choice(['"text"', '17', 'kelvin',
                                                '{3 + 4}']))
        if self.vars and r.random() < 0.5:
            v = r.choice(self.vars)
            return 'printf "{{}} and {{}} {{kelvin}}\\n" {} {{{} + 1}}'.format(
                v, v)
        return 'printf "k={{kelvin}} {{}}\\n" {}'.format(self._num(0, 99))

    def cond(self):
        r = self.rng
        if 'logic' in self.fx and r.random() < 0.5:
            self.fx.discard('logic')
            a, b, c = self.cond()[1:-1], self.cond()[1:-1], self.cond()[1:-1]
            self.fx.add('logic')
            return r.choice(['{{{} and {}}}', '{{{} or {}}}',
                             '{{{} or {} and {c}}}', '{{({} or {}) and {c}}}',
                             ]).format(a, b, c=c)
        if self.vars:
            v = r.choice(self.vars)
            return '{{{} {} {}}}'.format(v, r.choice(['<', '>', '==', '!=',
                                                      '<=', '>=']),
                                         self._num(0, 30))
        return '{{{} {} {}}}'.format(self._num(0, 9), r.choice(['<', '>']),
                                     self._num(0, 9))

    def block(self, depth, n, in_routine=False):
        return 'begin ' + ' '.join(
            self.statement(depth + 1, in_routine) for _ in range(n)) + ' end'

    def loop(self, depth, in_routine):
        r = self.rng
        self.n += 1
        forms = ['count', 'count', 'with', 'all', 'group', 'while']
        if 'break' in self.fx:
            forms += ['forever', 'count_break']
        if 'interp' in self.fx and not self.raw:
            forms += ['interp', 'cycle', 'all_with']
        if 'iter' in self.fx:
            forms += ['in_list', 'groups', 'locations', 'in_location']
        f = r.choice(forms)
        n_body = r.randint(1, 2)
        self.uniq += 1
        u = self.uniq
        if f == 'forever':
            var = 'fv{}'.format(u)
            body = 'begin {} assign {} {{{} + 1}} if {{{} >= {}}} break {} end'\
                .format(self.statement(depth + 1, in_routine), var, var, var,
                        self._num(1, 3),
                        r.choice(['', self.command(depth + 1, in_routine)]))
            return 'assign {} 0 repeat {}'.format(var, body)
        if f == 'count_break':
            var = 'cb{}'.format(u)
            body = 'begin {} assign {} {{{} + 1}} if {{{} == {}}} break end'\
                .format(self.statement(depth + 1, in_routine), var, var, var,
                        self._num(1, 3))
            return 'assign {} 0 repeat {} {}'.format(var, self._num(2, 4),
                                                     body)
        if f in ('interp', 'cycle', 'all_with'):
            var = 'iv{}'.format(u)
            reg = r.choice(['hue', 'brightness', 'saturation'])
            a = self._num(0, 40)
            b = a + r.choice([10, 15, 30, 60])
            if f == 'cycle':
                reg = 'hue'
                rng_txt = r.choice(['cycle', 'cycle {}'.format(a)])
            else:
                rng_txt = 'from {} to {}'.format(*r.choice([(a, b), (b, a)]))
            if f == 'all_with':
                lv = 'bl{}'.format(u)
                return ('repeat all as {} with {} {} begin {} {} kelvin {} '
                        'set {} end').format(lv, var, rng_txt, reg, var,
                                             1500 + self._next_tag(), lv)
            tag, regs = self._regs('color')
            tgt, _tk = self._target()
            return 'repeat {} with {} {} begin {} {} {} set {} end'.format(
                self._num(2, 4), var, rng_txt, regs, reg, var, tgt)
        if f == 'in_list':
            lv = 'il{}'.format(u)
            parts = [self._quote(self._light())]
            for _ in range(r.randint(1, 2)):
                parts.append(r.choice([
                    self._quote(self._light()),
                    'group ' + self._quote(r.choice(self.groups)),
                    'location ' + self._quote(r.choice(self.locs))]))
            r.shuffle(parts)
            return 'repeat in {} as {} begin kelvin {} set {} end'.format(
                ' and '.join(parts), lv, 1500 + self._next_tag(), lv)
        if f in ('groups', 'locations'):
            gv = 'gl{}'.format(u)
            word = 'group' if f == 'groups' else 'location'
            inner = ''
            if r.random() < 0.4:
                inner = ' repeat in {} {} as m{} begin duration {} off m{} end'\
                    .format(word, gv, u, self._next_tag(), u)
            return 'repeat {} as {} begin kelvin {} set {} {}{} end'.format(
                word, gv, 1500 + self._next_tag(), word, gv, inner)
        if f == 'in_location':
            lv = 'lm{}'.format(u)
            return ('repeat in location {} as {} begin duration {} on {} end'
                    .format(self._quote(r.choice(self.locs)), lv,
                            self._next_tag(), lv))
        if f == 'count':
            return 'repeat {} {}'.format(self._num(1, 3),
                                         self.block(depth, n_body, in_routine))
        if f == 'with':
            var = r.choice(['ix', 'jx']) + str(depth)
            added = var not in self.vars
            if added:
                self.vars.append(var)
            a, b = self._num(0, 5), self._num(0, 5)
            body = self.block(depth, n_body, in_routine)
            if added:
                self.vars.remove(var)
            return 'repeat with {} from {} to {} {}'.format(var, a, b, body)
        if f == 'all':
            var = 'lt' + str(depth)
            body = 'begin kelvin {} set {} end'.format(
                1500 + self._next_tag(), var)
            return 'repeat all as {} {}'.format(var, body)
        if f == 'group':
            var = 'gm' + str(depth)
            g = r.choice(self.groups)
            body = 'begin duration {} on {} end'.format(self._next_tag(), var)
            return 'repeat in group {} as {} {}'.format(
                self._quote(g), var, body)
        # while: bounded by a dedicated counter
        var = 'wh' + str(depth)
        # the loop counter is not offered to nested statements (an assignment
        # to it could make the loop endless)
        body = 'begin {} assign {} {{{} + 1}} end'.format(
            self.statement(depth + 1, in_routine), var, var)
        return 'assign {} 0 repeat while {{{} < {}}} {}'.format(
            var, var, self._num(1, 3), body)

    def if_stmt(self, depth, in_routine):
        r = self.rng
        self.n += 1
        s = 'if {} {}'.format(self.cond(), self.block(depth, 1, in_routine))
        if 'elseif' in self.fx and r.random() < 0.5:
            s += ' else if {} {}'.format(self.cond(),
                                         self.block(depth, 1, in_routine))
        if r.random() < 0.5:
            s += ' else {}'.format(self.block(depth, 1, in_routine))
        return s

    def call(self):
        name, nparams = self.rng.choice(self.routines)
        self.n += 1
        return '{} {}'.format(name, ' '.join(
            str(self._num(0, 20)) for _ in range(nparams))).strip()

    def routine_def(self):
        r = self.rng
        name = 'rt{}'.format(len(self.routines))
        nparams = r.randint(0, 2)
        params = ['pa', 'pb'][:nparams]
        saved = list(self.vars)
        self.vars = saved + params
        body = self.block(1, r.randint(1, 3), in_routine=True)
        self.vars = saved
        self.n += 1
        hdr = 'define {}'.format(name)
        if params:
            hdr += ' with ' + ' '.join(params)
        self.routines.append((name, nparams))
        return '{} {}'.format(hdr, body)

    def statement(self, depth, in_routine=False):
        r = self.rng
        o = self.o
        choices = ['command'] * 5 + ['assign']
        if o['print']:
            choices.append('print')
        if depth < o['max_depth']:
            if o['loops']:
                choices.append('loop')
            if o['ifs']:
                choices.append('if')
        if self.routines and (not in_routine or 'nested_calls' in self.fx):
            choices.append('call')
        k = r.choice(choices)
        if k == 'command':
            return self.command(depth, in_routine)
        if k == 'assign':
            return self.assign(depth, in_routine)
        if k == 'print':
            return self.print_stmt()
        if k == 'loop':
            return self.loop(depth, in_routine)
        if k == 'if':
            return self.if_stmt(depth, in_routine)
        return self.call()

    def script(self):
        r = self.rng
        parts = []
        if r.random() < self.o['units_raw']:
            self.raw = True
            parts.append('units raw')
        if not self.o['p_delay']:
            parts.append('time 0')
        if 'macros' in self.fx:
            for i in range(r.randint(1, 3)):
                if r.random() < 0.6:
                    name = 'mc{}'.format(i)
                    v = self._num(0, 100)
                    if self.num_macros and r.random() < 0.3:
                        # a macro defined through another one
                        other, v = r.choice(self.num_macros)
                        parts.append('define {} {}'.format(name, other))
                    else:
                        parts.append('define {} {}'.format(name, v))
                    self.num_macros.append((name, v))
                else:
                    name = 'ml{}'.format(i)
                    if r.random() < 0.7:
                        parts.append('define {} {}'.format(
                            name, self._quote(r.choice(self.lights))))
                        self.name_macros.append((name, 'light'))
                    else:
                        parts.append('define {} {}'.format(
                            name, self._quote(r.choice(self.groups))))
                        self.name_macros.append((name, 'group'))
        if 'strvars' in self.fx:
            for i in range(r.randint(1, 2)):
                name = 'sv{}'.format(i)
                if r.random() < 0.7:
                    parts.append('assign {} {}'.format(
                        name, self._quote(r.choice(self.lights))))
                    self.name_macros.append((name, 'light'))
                else:
                    parts.append('assign {} {}'.format(
                        name, self._quote(r.choice(self.groups))))
                    self.name_macros.append((name, 'group'))
        if 'functions' in self.fx and self.o['routines']:
            for i in range(r.randint(1, 2)):
                name = 'fn{}'.format(i)
                k = self._num(0, 4)
                form = r.choice(['plain', 'if', 'local'])
                if form == 'plain':
                    body = 'return {{fa + {}}}'.format(k)
                elif form == 'if':
                    body = ('begin if {{fa > {}}} return {{fa + {}}} '
                            'return {{{} + fa}} end'.format(
                                self._num(0, 50), k, k))
                else:
                    body = ('begin assign fl {{fa * 2}} '
                            'return {{fl - fa + {}}} end'.format(k))
                parts.append('define {} with fa {}'.format(name, body))
                self.functions.append((name, k))
        max_routines = 3 if 'nested_calls' in self.fx else 2
        target = r.randint(3, self.o['max_statements'])
        while self.n < target:
            if (self.o['routines'] and len(self.routines) < max_routines
                    and r.random() < 0.15):
                parts.append(self.routine_def())
            else:
                parts.append(self.statement(0))
        self.parts = parts
        return '\n'.join(parts)


def gen_script(rng, population, opts=None):
    g = ScriptGen(rng, population, opts)
    text = g.script()
    return text, {'commands': g.commands, 'statements': g.n, 'raw': g.raw,
                  'parts': g.parts, 'features': sorted(g.fx)}
