"""Seeded populations of simulated bulbs."""
LABELS = ['Top', 'Middle', 'Bottom', 'Lamp', 'Desk', 'Chair', 'Table']
MZ_LABELS = ['Strip', 'Beam']
MAT_LABELS = ['Candle', 'Tube']
GROUPS = ['Pole', 'Furniture', 'Window']
LOCATIONS = ['Home', 'Office']


def gen_population(rng, n_min=2, n_max=5, kinds=('plain', 'mz', 'matrix'),
                   ensure=()):
    n = rng.randint(n_min, n_max)
    pop = []
    labels = list(LABELS)
    rng.shuffle(labels)
    mz = list(MZ_LABELS)
    mat = list(MAT_LABELS)
    want = list(ensure)
    for i in range(n):
        if want:
            kind = want.pop(0)
        else:
            kind = rng.choice(['plain', 'plain'] + list(kinds))
        if kind == 'mz' and mz:
            spec = {'label': mz.pop(0), 'product': 32,
                    'zones': rng.choice([8, 12, 16, 24])}
        elif kind == 'matrix' and mat:
            spec = {'label': mat.pop(0), 'product': 57, 'tile_w': 5,
                    'tile_h': 6}
        else:
            spec = {'label': labels.pop(0), 'product': 27}
        spec['group'] = rng.choice(GROUPS)
        spec['location'] = rng.choice(LOCATIONS)
        spec['latency'] = rng.choice([0.001, 0.004, 0.02, 0.08])
        spec['power'] = rng.choice([0, 65535])
        spec['color'] = [rng.randint(0, 65535), rng.randint(0, 65535),
                         rng.randint(0, 65535), rng.randint(1500, 9000)]
        pop.append(spec)
    return pop
