"""C08 - queued jobs run one at a time, in order, exactly once; queue drains.

Real code: bardolph/lib/job_control.py (all of it).  Jobs are instrumented
`Job` objects whose bodies are little programs of simulator yields.  Clients
are simulated threads.  See DESIGN.md section 3, C08.
"""
import sys

from sim import core, env

PROP = 'C08'
LEVEL = 'exploration'
RULE = ('seeded scenarios: 1-3 client threads x 1-5 operations drawn from '
        'add/insert/spawn/stop_job/stop_current/stop_background/clear_queue '
        'and the observers, 1-6 jobs whose bodies finish, sleep, raise or run '
        'until stopped; every thread switch (sync points, source lines or '
        'bytecodes of job_control.py) is decided by a seeded policy (uniform, '
        'mostly-sequential, PCT). A run is non-trivial if at least one thread '
        'switch happened inside a controller operation; distinct = distinct '
        'digest of the full event log.')
ASSUMPTIONS = [
    'pre-emption at line/bytecode boundaries of job_control.py approximates '
    'GIL switching; C-level deque/dict operations are atomic',
    'lock acquisition time-outs (1 s) stay dormant: no stall is applied while '
    'a thread waits for the lock (DESIGN.md 2.4)',
    'primitive models (RLock, Thread) follow CPython semantics',
]
COMPONENTS = {'real': ['bardolph/lib/job_control.py',
                       'bardolph/controller/ls_module.py (queue_script, '
                       'about 6% of the runs)'],
              'stub': ['thread scheduling', 'clock', 'job bodies']}
PROBES = ['job_raised_base_exception', 'callback_raced_enqueue', 'lock_contended', 'job_raised',
          'stopped_by_controller', 'clear_raced_pop', 'observer_overlapped',
          'front_insert_while_busy']
WALL_CAP = {'quick': 100, 'thorough': 1200}


def runs_for(tier):
    return 24000 if tier == 'quick' else 400000


# ---------------------------------------------------------------------------
def gen_ls(rng):
    """Clients of the Python interface: ls_module.queue_script() from 2-3
    threads, the very first calls of the process included."""
    from sim import policy
    n_clients = rng.choice([2, 2, 3])
    jobs = []
    clients = []
    for c in range(n_clients):
        ops = []
        if rng.random() < 0.3:
            ops.append({'op': 'sleep', 'd': rng.choice([0.01, 0.1])})
        for _ in range(rng.randint(1, 2)):
            jid = len(jobs)
            kinds = ['quick', 'quick', 'sleep', 'raise']
            jobs.append({'id': jid, 'kind': rng.choice(kinds),
                         'yields': rng.randint(0, 3),
                         'dur': rng.choice([0.0, 0.01, 0.1]),
                         'name': None, 'how': 'add'})
            ops.append({'op': 'add', 'job': jid})
        clients.append(ops)
    pol = policy.draw_policy(rng, est_len=200, stalls=False)
    if pol['gran'] == 'sync':
        pol['gran'] = 'line'
    return {'policy': pol, 'jobs': jobs, 'clients': clients, 'via': 'ls'}


def gen(rng, tier, index):
    from sim import policy
    if rng.random() < 0.06:
        return gen_ls(rng)
    n_clients = rng.choice([1, 2, 2, 3, 3])
    total_jobs = rng.randint(1, 6)
    with_clear = rng.random() < 0.25
    with_observers = rng.random() < 0.6
    jobs = []
    clients = [[] for _ in range(n_clients)]
    names = []
    budget = [rng.randint(1, 5) for _ in range(n_clients)]
    slots = [(c, k) for c in range(n_clients) for k in range(budget[c])]
    rng.shuffle(slots)
    # make sure the first slots create jobs
    made = 0
    per_client = {c: [] for c in range(n_clients)}
    for (c, _k) in sorted(slots[:total_jobs]):
        jid = len(jobs)
        kind = rng.choice(['quick', 'quick', 'sleep', 'raise', 'until_stop'])
        if kind == 'raise' and rng.random() < 0.35:
            kind = 'exit'       # ends by raising a BaseException subclass
        job = {'id': jid, 'kind': kind,
               'yields': rng.randint(0, 3),
               'dur': rng.choice([0.0, 0.01, 0.1, 0.5])}
        how = rng.choice(['add', 'add', 'insert', 'insert', 'spawn'])
        if how == 'spawn':
            name = 'bg{}'.format(jid)
        else:
            name = 'q{}'.format(jid) if rng.random() < 0.8 else None
        job['name'] = name
        job['how'] = how
        jobs.append(job)
        if name:
            names.append(name)
        per_client[c].append({'op': how, 'job': jid})
        made += 1
    for (c, _k) in slots[total_jobs:]:
        choices = ['stop_current', 'stop_background', 'sleep']
        if names:
            choices += ['stop_job', 'stop_job']
        if with_clear:
            choices += ['clear', 'clear']
        if with_observers:
            choices += ['has_jobs', 'get_current', 'get_queued']
            if names:
                choices += ['is_running', 'is_running']
        op = rng.choice(choices)
        rec = {'op': op}
        if op in ('stop_job', 'is_running'):
            rec['name'] = rng.choice(names)
        if op == 'sleep':
            rec['d'] = rng.choice([0.01, 0.1, 0.3])
        pos = rng.randint(0, len(per_client[c]))
        per_client[c].insert(pos, rec)
    for c in range(n_clients):
        clients[c] = per_client[c]
    clients = [c for c in clients if c]
    return {'policy': policy.draw_policy(rng, est_len=300, stalls=False),
            'jobs': jobs, 'clients': clients}


def shrink(sc):
    import copy
    # drop a whole client
    if len(sc['clients']) > 1:
        for i in range(len(sc['clients'])):
            c = copy.deepcopy(sc)
            del c['clients'][i]
            yield _renumber(c)
    # drop one operation
    for i, ops in enumerate(sc['clients']):
        for k in range(len(ops)):
            c = copy.deepcopy(sc)
            del c['clients'][i][k]
            c['clients'] = [x for x in c['clients'] if x]
            if c['clients']:
                yield _renumber(c)
    # simplify job bodies
    for j in sc['jobs']:
        if j['kind'] != 'quick' or j['yields'] or j['dur']:
            c = copy.deepcopy(sc)
            jj = c['jobs'][j['id']]
            jj['kind'], jj['yields'], jj['dur'] = 'quick', 0, 0.0
            yield c
    if sc['policy']['gran'] != 'line':
        c = copy.deepcopy(sc)
        c['policy']['gran'] = 'line'
        yield c


def _renumber(sc):
    used = [op['job'] for ops in sc['clients'] for op in ops if 'job' in op]
    names = {sc['jobs'][j]['name'] for j in used}
    for ops in sc['clients']:
        ops[:] = [op for op in ops
                  if 'name' not in op or op['name'] in names]
    sc['clients'] = [x for x in sc['clients'] if x]
    return sc


# ---------------------------------------------------------------------------
class History:
    def __init__(self):
        self.ev = []

    def add(self, kind, **data):
        seq = len(self.ev)
        data['seq'] = seq
        data['kind'] = kind
        self.ev.append(data)
        return seq


def execute(scenario, chooser):
    env.install_threads()
    env.quiet_excepthook()
    from bardolph.lib import job_control
    # everything ls_module imports is loaded before any run starts, so that
    # importing it inside a run costs the same in every run of a process
    from bardolph.controller import (config_values, light_module,  # noqa
                                     script_job)
    from bardolph.lib import injection, settings  # noqa

    pol = scenario['policy']
    sim = core.Sim(chooser, gran=pol['gran'], step_cap=60000)
    sim.stall_enabled = False
    sim.fairness = 400
    hist = History()
    state = {'running': 0, 'viol': [], 'agents': {}, 'jobs': {}}

    def violation(sig, msg):
        if not any(v['sig'] == sig for v in state['viol']):
            state['viol'].append({'sig': 'C08/' + sig, 'msg': msg})

    class SimJob(job_control.Job):
        def __init__(self, spec):
            self.spec = spec
            self.stop_requested = False
            self.starts = 0

        def execute(self):
            spec = self.spec
            queued = spec['how'] != 'spawn'
            self.starts += 1
            hist.add('start', job=spec['id'])
            if self.starts > 1:
                violation('started-twice',
                          'job {} body started {} times'.format(
                              spec['id'], self.starts))
            if queued:
                state['running'] += 1
                if state['running'] > 1:
                    violation('exclusion', 'two queued job bodies executing '
                              'at once (job {} started while another runs)'
                              .format(spec['id']))
            try:
                for _ in range(spec['yields']):
                    sim.preempt(('job.body', spec['id']))
                if spec['kind'] == 'sleep':
                    sim.sleep(spec['dur'])
                elif spec['kind'] == 'until_stop':
                    while not self.stop_requested:
                        sim.sleep(0.05)
                elif spec['kind'] == 'raise':
                    sim.count('job_raised')
                    raise RuntimeError('job {} fails'.format(spec['id']))
                elif spec['kind'] == 'exit':
                    sim.count('job_raised')
                    sim.count('job_raised_base_exception')
                    raise SystemExit(3)
            finally:
                if queued:
                    state['running'] -= 1
                hist.add('end', job=spec['id'])

        def request_stop(self):
            if not self.stop_requested:
                sim.count('stopped_by_controller')
            self.stop_requested = True

    def client_body(jc, ops, cidx):
        def body():
            for op in ops:
                do_op(jc, op, cidx)
        return body

    def do_op(jc, op, cidx):
        kind = op['op']
        if kind == 'sleep':
            sim.sleep(op['d'])
            return
        data = {k: v for k, v in op.items() if k != 'op'}
        if kind == 'is_running':
            # has the thread of the job of that name already ended (its
            # completion callback included)?
            data['ended'] = False
            for spec in scenario['jobs']:
                if spec['name'] == op['name']:
                    ag = state['agents'].get(spec['id'])
                    stt = None
                    for t in sim.threads:
                        if ag is not None and getattr(
                                t.target, '__self__', None) is ag:
                            stt = t
                    data['ended'] = stt is not None and stt.state == 'done'
        inv = hist.add('inv', op=kind, client=cidx, **data)
        ret = None
        exc = None
        try:
            if kind in ('add', 'insert', 'spawn'):
                spec = scenario['jobs'][op['job']]
                if via_ls:
                    agent = state['ls'].queue_script(
                        'job:{}'.format(spec['id']))
                    state['agents'][spec['id']] = agent
                    ret = agent is not None
                    hist.add('ret', op=kind, client=cidx, inv=inv, value=ret,
                             exc=None, **data)
                    return
                job = SimJob(spec)
                state['jobs'][spec['id']] = job
                if kind == 'add':
                    agent = jc.add_job(job, spec['name'])
                elif kind == 'insert':
                    if jc.get_current() is not None:
                        sim.count('front_insert_while_busy')
                    agent = jc.insert_job(job, spec['name'])
                else:
                    agent = jc.spawn_job(job, spec['name'])
                state['agents'][spec['id']] = agent
                ret = agent is not None
            elif kind == 'stop_job':
                ret = jc.stop_job(op['name'])
            elif kind == 'stop_current':
                ret = jc.stop_current()
            elif kind == 'stop_background':
                ret = jc.stop_background()
            elif kind == 'clear':
                jc.clear_queue()
            elif kind == 'has_jobs':
                ret = jc.has_jobs()
            elif kind == 'get_current':
                cur = jc.get_current()
                ret = None if cur is None else _job_id_of(cur)
            elif kind == 'get_queued':
                ret = [_job_id_of(a) for a in jc.get_queued()]
            elif kind == 'is_running':
                ret = bool(jc.is_running(op['name']))
        except core.SimAbort:
            raise
        except Exception as ex:
            exc = '{}: {}'.format(type(ex).__name__, ex)
        hist.add('ret', op=kind, client=cidx, inv=inv, value=ret, exc=exc,
                 **data)

    def _job_id_of(agent):
        return agent.job.spec['id']

    final = {}
    via_ls = scenario.get('via') == 'ls'

    def make_job(text):
        spec = scenario['jobs'][int(text.split(':')[1])]
        job = SimJob(spec)
        state['jobs'][spec['id']] = job
        return job

    def main_ls():
        # a new process: the module is imported afresh, its functions are
        # pre-emptible, and ScriptJob.from_string hands out instrumented jobs
        import importlib
        from sim import tracing
        from bardolph.controller import script_job
        saved = script_job.ScriptJob.__dict__['from_string']
        script_job.ScriptJob.from_string = staticmethod(make_job)
        try:
            # executed from scratch in every run (never a no-op import plus
            # a reload in one run and a first import in another)
            sys.modules.pop('bardolph.controller.ls_module', None)
            ls = importlib.import_module('bardolph.controller.ls_module')
            names = [c.co_qualname for c in _all_codes(ls)]
            tracing.scope_module(ls, instructions=names)
            state['ls'] = ls
            clients = []
            for i, ops in enumerate(scenario['clients']):
                clients.append(sim.spawn(client_body(None, ops, i), 'client'))
            for c in clients:
                sim.join(c)
            hist.add('clients_done')
            drained = False
            for _ in range(400):
                alive = [t for t in sim.threads
                         if t.role == 'job' and t.state != 'done']
                if not alive:
                    drained = True
                    break
                sim.sleep(0.05)
            final.update({'drained': drained, 'has_jobs': False,
                          'current': None, 'queued': [],
                          'running_names': [],
                          'alive': [t.name for t in sim.threads
                                    if t.role == 'job'
                                    and t.state != 'done']})
        finally:
            script_job.ScriptJob.from_string = saved

    def main():
        if via_ls:
            return main_ls()
        jc = job_control.JobControl()
        clients = []
        for i, ops in enumerate(scenario['clients']):
            clients.append(sim.spawn(client_body(jc, ops, i), 'client'))
        for c in clients:
            sim.join(c)
        hist.add('clients_done')
        # the world eventually stops every unbounded job
        for job in list(state['jobs'].values()):
            job.stop_requested = True
        # jobs created later by nobody: none.  Wait for the drain.
        drained = False
        for _ in range(400):
            alive = [t for t in sim.threads
                     if t.role == 'job' and t.state != 'done']
            if not alive and not jc.has_jobs():
                drained = True
                break
            sim.sleep(0.05)
        final['drained'] = drained
        final['has_jobs'] = jc.has_jobs()
        cur = jc.get_current()
        final['current'] = None if cur is None else _job_id_of(cur)
        final['queued'] = [_job_id_of(a) for a in jc.get_queued()]
        final['alive'] = [t.name for t in sim.threads
                          if t.role == 'job' and t.state != 'done']
        final['running_names'] = [
            j['name'] for j in scenario['jobs']
            if j['name'] and j['id'] in state['jobs']
            and jc.is_running(j['name'])]

    out = sim.run(main)
    res = {'violations': state['viol'], 'digest': sim.digest(),
           'switch_digest': sim.switch_digest(), 'sim_time': sim.now,
           'steps': sim.steps, 'faults': {}, 'probes': dict(sim.stats),
           'deviations': list(sim.deviations), 'harness_error': None,
           'nontrivial': sim.switches > len(scenario['clients']) + 1}
    ops = sorted(op['op'] for c in scenario['clients'] for op in c)
    res['shape'] = '{}c:{}'.format(len(scenario['clients']), ','.join(ops))
    if out.status == 'deadlock':
        violation('drain/deadlock', 'no thread can run: ' +
                  _fmt_stacks(out.stacks))
    elif out.status != 'ok':
        res['harness_error'] = 'simulation ended with {}: {} {}'.format(
            out.status, out.detail, _fmt_stacks(out.stacks))
        return res
    else:
        check_history(scenario, hist.ev, final, violation, sim)
    res['probes'] = dict(sim.stats)
    ops_all = [op['op'] for c in scenario['clients'] for op in c]
    res['faults'] = {
        'job_body_raises': sim.stats.get('job_raised', 0),
        'stop_request_delivered': sim.stats.get('stopped_by_controller', 0),
        'clear_queue': ops_all.count('clear'),
        'thread_preemption': sim.switches,
    }
    res['sample'] = {'clients': scenario['clients'],
                     'jobs': [(j['id'], j['how'], j['kind'])
                              for j in scenario['jobs']],
                     'policy': scenario['policy'],
                     'start_order': [e['job'] for e in hist.ev
                                     if e['kind'] == 'start'],
                     'thread_switches': sim.switches}
    return res


def _all_codes(module):
    import types
    from sim import tracing
    seen = set()
    out = []
    for obj in vars(module).values():
        if isinstance(obj, (types.FunctionType, type)) and \
                getattr(obj, '__module__', None) == module.__name__:
            out.extend(tracing._codes_of(obj, seen))
    return out


def _fmt_stacks(stacks):
    return '; '.join('{}[{}] {}'.format(n, s['kind'], ' < '.join(s['stack'][:4]))
                     for n, s in sorted(stacks.items()))


# ---------------------------------------------------------------------------
# Oracles over the recorded history
# ---------------------------------------------------------------------------
def check_history(scenario, ev, final, violation, sim):
    jobs = {j['id']: j for j in scenario['jobs']}
    inv_of = {}
    ops = []            # (kind, inv_seq, ret_seq, data)
    for e in ev:
        if e['kind'] == 'ret':
            ops.append(e)
    start = {}
    end = {}
    for e in ev:
        if e['kind'] == 'start':
            start.setdefault(e['job'], e['seq'])
        elif e['kind'] == 'end':
            end.setdefault(e['job'], e['seq'])

    # -- observers and API calls never raise --------------------------------
    for o in ops:
        if o['exc'] is None:
            continue
        if o['op'] in ('has_jobs', 'is_running', 'get_current', 'get_queued'):
            violation('observer-raises/' + o['op'],
                      '{}({}) raised {}'.format(o['op'], o.get('name', ''),
                                                o['exc']))
        elif o['op'] in ('add', 'insert', 'spawn'):
            if 'IndexError' in o['exc'] and _has_clear(ops):
                sim.count('clear_raced_pop')     # tolerated: job was cleared
            else:
                violation('enqueue-raises/' + o['op'],
                          '{} raised {}'.format(o['op'], o['exc']))
        else:
            sim.count('stop_op_raised')          # C09's business, not C08's

    # -- drain --------------------------------------------------------------
    if not final.get('drained'):
        violation('drain/not-idle',
                  'after all clients finished and every job was told to stop '
                  'the controller still reports has_jobs={} current={} '
                  'queued={} alive={}'.format(
                      final.get('has_jobs'), final.get('current'),
                      final.get('queued'), final.get('alive')))
        return
    if final['current'] is not None or final['queued'] or final['has_jobs']:
        violation('drain/leftover', 'drained but current={} queued={}'.format(
            final['current'], final['queued']))
    if final['running_names']:
        violation('background/not-forgotten',
                  'finished jobs still reported running: {}'.format(
                      final['running_names']))

    # -- order + exactly once: linearizability against a deque --------------
    items = []
    clear_present = False
    for o in ops:
        if o['op'] in ('add', 'insert'):
            ack = (o['value'] is True) or (o['exc'] is not None)
            if not ack:
                if o['job'] in start:
                    violation('unacknowledged-ran',
                              'job {} ran although its enqueue returned None'
                              .format(o['job']))
                continue
            items.append({'t': 'enq', 'front': o['op'] == 'insert',
                          'job': o['job'], 'lo': o['inv'], 'hi': o['seq']})
        elif o['op'] == 'clear':
            clear_present = True
            items.append({'t': 'clear', 'lo': o['inv'], 'hi': o['seq']})
    enq_inv = {it['job']: it['lo'] for it in items if it['t'] == 'enq'}
    for j, s in start.items():
        if jobs[j]['how'] == 'spawn':
            continue
        if j not in enq_inv:
            continue
        items.append({'t': 'pop', 'job': j, 'lo': enq_inv[j], 'hi': s})
        if j in end:
            items.append({'t': 'end', 'job': j, 'lo': end[j], 'hi': end[j]})
    if not _linearizable(items):
        order = [e['job'] for e in ev if e['kind'] == 'start'
                 and jobs[e['job']]['how'] != 'spawn']
        never = sorted(set(enq_inv) - set(start))
        violation('order' if not never or clear_present else 'lost-job',
                  'no linearization of the enqueue operations explains the '
                  'observed starts against a deque model: start order {}, '
                  'never started {}, enqueues {}'.format(
                      order, never,
                      [(it['job'], 'front' if it['front'] else 'back',
                        it['lo'], it['hi'])
                       for it in items if it['t'] == 'enq']))

    # -- background / running reports ---------------------------------------
    for o in ops:
        if o['exc'] is not None:
            continue
        if o['op'] == 'is_running':
            jid = _job_by_name(jobs, o['name'])
            if jid is None:
                continue
            verdict = _expect_running(jobs[jid], jid, o, ops, start, end, ev)
            if o.get('ended') and o['value'] is True:
                violation('running-report',
                          'is_running({!r}) returned True although the '
                          'job\'s thread (completion callback included) had '
                          'ended before the call'.format(o['name']))
            if verdict == 'overlap':
                sim.count('observer_overlapped')
            elif verdict is not None and verdict != o['value']:
                violation('running-report',
                          'is_running({!r}) returned {} at events {}..{} but '
                          'the job {}'.format(
                              o['name'], o['value'], o['inv'], o['seq'],
                              'was executing' if verdict else
                              'had not been submitted or had ended'))
        elif o['op'] == 'has_jobs' and o['value'] is False:
            for j in start:
                if j in end and start[j] < o['inv'] and o['seq'] < end[j]:
                    violation('has-jobs-report',
                              'has_jobs() returned False while job {} was '
                              'executing'.format(j))
        elif o['op'] == 'get_current':
            for j in start:
                if jobs[j]['how'] == 'spawn':
                    continue
                if j in end and start[j] < o['inv'] and o['seq'] < end[j]:
                    if o['value'] != j:
                        violation('current-report',
                                  'get_current() returned job {} while queued '
                                  'job {} was executing'.format(o['value'], j))
    # probe: completion callback raced an enqueue
    for it in items:
        if it['t'] == 'enq':
            for j, e in end.items():
                if it['lo'] < e < it['hi']:
                    sim.count('callback_raced_enqueue')


def _has_clear(ops):
    return any(o['op'] == 'clear' for o in ops)


def _job_by_name(jobs, name):
    for j in jobs.values():
        if j['name'] == name:
            return j['id']
    return None


def _expect_running(job, jid, o, ops, start, end, ev):
    """True / False / 'overlap' / None (job never submitted by its op)."""
    sub = None
    for p in ops:
        if p['op'] in ('add', 'insert', 'spawn') and p.get('job') == jid:
            sub = p
    if sub is None:
        # submission op never ran or never returned
        inv = [e for e in ev if e['kind'] == 'inv' and e.get('job') == jid]
        if not inv or o['seq'] < inv[0]['seq']:
            return False
        return 'overlap'
    if o['seq'] < sub['inv']:
        return False
    if job['how'] == 'spawn':
        lo = sub['seq']             # spawn returned
    else:
        lo = start.get(jid)
        if lo is None:
            return 'overlap'
    hi = end.get(jid)
    if hi is not None and lo < o['inv'] and o['seq'] < hi:
        return True
    # "forgotten when they end": only judged at quiescence (final check)
    return 'overlap'


def _linearizable(items):
    n = len(items)
    if n == 0:
        return True
    if n > 40:
        raise RuntimeError('history too long for the linearizability search')
    memo = set()

    def apply(it, state):
        dq, active = state
        t = it['t']
        if t == 'enq':
            return ((it['job'],) + dq if it['front'] else dq + (it['job'],),
                    active)
        if t == 'clear':
            return ((), active)
        if t == 'pop':
            if active is not None or not dq or dq[0] != it['job']:
                return None
            return (dq[1:], it['job'])
        if t == 'end':
            if active != it['job']:
                return None
            return (dq, None)
        raise AssertionError(t)

    def search(remaining, state):
        if not remaining:
            return not state[0] and state[1] is None
        key = (remaining, state)
        if key in memo:
            return False
        min_hi = min(items[i]['hi'] for i in remaining)
        for i in sorted(remaining, key=lambda k: items[k]['lo']):
            it = items[i]
            if it['lo'] > min_hi:
                break
            ns = apply(it, state)
            if ns is None:
                continue
            if search(remaining - {i}, ns):
                return True
        memo.add(key)
        return False

    # jobs that never ended (should not happen after a drain) keep `active`
    return search(frozenset(range(n)), ((), None))


if __name__ == '__main__':
    from sim import driver
    sys.exit(driver.main(sys.modules[__name__]))
