"""Determinism self-test: every check, the same seeds, two fresh interpreters
under different PYTHONHASHSEED values, the second one running the indices in
reverse order (a run may not depend on what its process ran before - workers
of a batch and a replay in a fresh interpreter see different pasts); the
per-run event-log digests must be identical.

usage: ./check selftest [--runs N] [--seed S] [ids...]
exit 0 = identical, 1 = a divergence (printed), 2 = a run failed.
"""
import argparse
import hashlib
import json
import os
import subprocess
import sys

HERE = os.path.dirname(os.path.dirname(os.path.abspath(__file__)))
IDS = ['C08', 'C09', 'C10', 'C12', 'C13', 'C17', 'C20']


def _digests(cid, runs, seed, hashseed):
    env = dict(os.environ, PYTHONHASHSEED=str(hashseed),
               VERIF_SEED=str(seed),
               VERIF_DIGEST_ORDER='reverse' if hashseed else 'forward')
    p = subprocess.run([os.path.join(HERE, 'check'), cid, '--digests',
                        '--runs', str(runs), '--seed', str(seed)],
                       env=env, capture_output=True, text=True, timeout=1800)
    if p.returncode != 0:
        return None, p.stdout[-2000:] + p.stderr[-2000:]
    lines = [ln for ln in p.stdout.split('\n') if ln and ln[0].isdigit()]
    return lines, ''


def main(argv):
    ap = argparse.ArgumentParser()
    ap.add_argument('--runs', type=int, default=80)
    ap.add_argument('--seed', type=int, default=12345)
    ap.add_argument('ids', nargs='*')
    args = ap.parse_args(argv)
    ids = args.ids or IDS
    rc = 0
    import concurrent.futures as cf
    with cf.ThreadPoolExecutor(max_workers=8) as ex:
        futs = {}
        for cid in ids:
            for hs in (0, 4242):
                futs[(cid, hs)] = ex.submit(_digests, cid, args.runs,
                                            args.seed, hs)
        for cid in ids:
            a, ea = futs[(cid, 0)].result()
            b, eb = futs[(cid, 4242)].result()
            if a is None or b is None:
                print('{}: run failed: {}'.format(cid, ea or eb))
                rc = max(rc, 2)
                continue
            diff = [(x, y) for x, y in zip(a, b) if x != y]
            h = hashlib.sha256('\n'.join(a).encode()).hexdigest()[:16]
            if diff or len(a) != len(b):
                print('{}: NON-DETERMINISTIC: {} of {} runs differ, first: '
                      '{} | {}'.format(cid, len(diff), len(a),
                                       diff[0][0] if diff else len(a),
                                       diff[0][1] if diff else len(b)))
                rc = max(rc, 1)
            else:
                print('{}: {} runs, digests identical under PYTHONHASHSEED '
                      '0 (forward) and 4242 (reverse order) (set digest {})'
                      .format(cid, len(a), h))
    return rc


if __name__ == '__main__':
    sys.exit(main(sys.argv[1:]))
