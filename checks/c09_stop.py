"""C09 - a stop request ends a running script promptly in every state and is
never lost; the queue continues; stop-all empties the queue; a stop is scoped
to the run it was aimed at.

Real: JobControl/Agent, ScriptJob, Parser, Loader, Machine, Clock (its real
clock thread on virtual time), LightSet, LifxLanApi, lifx_lan_light, lifxlan,
WebApp.stop_all/stop_current/stop_script.  Stub: LAN + bulbs, scheduling.
"""
import copy
import json
import sys

from sim import core, env, world
from gen import scripts, populations

PROP = 'C09'
LEVEL = 'exploration'
RULE = ('seeded scenarios: script shape (straight-line, generated with loops/'
        'routines, infinite repeat, long timed delays, time-of-day wait) x '
        'tick length x 0-2 queued follower jobs x stop route '
        '(Agent.request_stop, stop_job, stop_current, WebApp.stop_all) x stop '
        'timing (free-running after a virtual delay, or targeted: requester '
        'released when the job thread reaches a named source line for the '
        'k-th time - before reset, between reset and run, at an instruction '
        'boundary, after the flag test, before/inside the tick wait, inside '
        'the time-of-day wait, as the script finishes) x thread schedule '
        '(seeded policy incl. stalls) x follow-up run (same job object or '
        'another script). Non-trivial: the stop call overlapped a live run of '
        'the victim; distinct = distinct event-log digest.')
ASSUMPTIONS = [
    'line-level (and, for flag updates, bytecode-level) pre-emption in '
    'job_control.py, clock.py, script_job.py and Machine.run/stop/_wait/'
    'reset approximates GIL switching',
    'promptness is judged with stalls switched off from the moment the stop '
    'call returned',
    'a stop issued after the job ended by itself is a no-op',
]
COMPONENTS = {
    'real': ['bardolph/lib/job_control.py', 'bardolph/lib/clock.py',
             'bardolph/controller/script_job.py', 'bardolph/vm/machine.py',
             'bardolph/parser/*', 'bardolph/vm/loader.py',
             'bardolph/controller/light_set.py, lifx_lan_api.py, '
             'lifx_lan_light.py', 'web/web_app.py (stop_all, stop_current, '
             'stop_script)', 'lifxlan'],
    'stub': ['thread scheduling', 'clock', 'UDP network', 'bulb firmware'],
}
PROBES = ['stop_in_event_wait', 'stop_before_first_instruction',
          'stop_between_check_and_wait', 'stop_in_time_of_day_wait',
          'stop_as_script_finished', 'stop_after_end_noop',
          'stop_between_instructions', 'follower_ran_complete',
          'rerun_same_object', 'stop_all_cleared_queue', 'stall',
          'stop_through_front_end', 'stop_during_handover',
          'rerun_as_old_clock_thread_ends']
WALL_CAP = {'quick': 170, 'thorough': 1700}

TYPES = ('LightSetColor', 'LightSetPower', 'MultiZoneSetColorZones',
         'LightGet')


def runs_for(tier):
    return 6000 if tier == "quick" else 150000


# ---------------------------------------------------------------------------
# Source locations for targeted stops (found by text, robust to line shifts)
# ---------------------------------------------------------------------------
_TARGETS = None


def _find_line(path, needle, nth=1, after=None):
    with open(path) as f:
        lines = f.read().split('\n')
    start = 0
    if after is not None:
        for i, ln in enumerate(lines):
            if after in ln:
                start = i
                break
    seen = 0
    for i in range(start, len(lines)):
        if needle in lines[i]:
            seen += 1
            if seen == nth:
                return i + 1
    return None


def targets():
    global _TARGETS
    if _TARGETS is not None:
        return _TARGETS
    from bardolph.lib import clock
    from bardolph.vm import machine
    from bardolph.controller import script_job
    from bardolph.lib import job_control
    c, m, s = clock.__file__, machine.__file__, script_job.__file__
    j = job_control.__file__
    t = {
        # the finishing job's thread handing over to the next queued job
        'handover_clear': ('job_control.py', _find_line(
            j, 'self._active_agent = None', after='def _on_execution_done')),
        'handover_next': ('job_control.py', _find_line(
            j, 'self._run_next_job()', after='def _on_execution_done')),
        'handover_pop': ('job_control.py', _find_line(
            j, 'self._queue.popleft()', after='def _run_next_job')),
        'handover_unlock': ('job_control.py', _find_line(
            j, 'self._release_lock()', after='def _run_next_job')),
        'before_reset': ('script_job.py', _find_line(s, 'self._machine.reset()')),
        'before_run': ('script_job.py', _find_line(s, 'self._machine.run(')),
        'clock_start': ('machine.py', _find_line(m, 'self._clock.start()')),
        'loop_test': ('machine.py', _find_line(
            m, 'while self._keep_running and')),
        'dispatch': ('machine.py', _find_line(m, 'fn()', after='def run(')),
        'finishing': ('machine.py', _find_line(
            m, 'self._clock.stop()', after='def run(')),
        'cue': ('clock.py', _find_line(c, 'self._cue_time += delay')),
        'wait_check': ('clock.py', _find_line(c, 'if self._keep_going:',
                                             after='def wait(')),
        'before_event_wait': ('clock.py', _find_line(
            c, 'self._event.wait(', after='def wait(')),
        'in_event_wait': ('block', 'event'),
        'time_of_day_loop': ('clock.py', _find_line(
            c, 'Clock._hour_minute()', nth=2, after='def wait_until(')),
    }
    _TARGETS = {k: v for k, v in t.items() if v[1] is not None}
    return _TARGETS


# ---------------------------------------------------------------------------
def _follower_text(rng, pop, k):
    base = 3000 + 100 * k
    dbase = 1000 + 100 * k
    labels = [b['label'] for b in pop]
    groups = sorted({b['group'] for b in pop})
    parts = ['time {}'.format(rng.choice([0, 0, 0.05]))]
    for j in range(rng.randint(1, 4)):
        form = rng.choice(['all', 'light', 'group', 'power'])
        if form == 'all':
            parts.append('kelvin {} set all'.format(base + j))
        elif form == 'light':
            parts.append('kelvin {} set "{}"'.format(base + j,
                                                     rng.choice(labels)))
        elif form == 'group':
            parts.append('kelvin {} set group "{}"'.format(
                base + j, rng.choice(groups)))
        else:
            parts.append('duration {} on "{}"'.format(dbase + j,
                                                      rng.choice(labels)))
    return '\n'.join(parts)


def _main_text(rng, pop, shape, tick):
    g = scripts.ScriptGen(rng, pop, {
        'matrix': False, 'units_raw': 0.0, 'reassign_after_get': True,
        'print': False, 'max_statements': 8, 'zones': True})
    if shape == 'straight':
        g.o.update({'loops': False, 'ifs': False, 'routines': False})
        return g.script()
    if shape == 'generated':
        return g.script()
    cmds = [g.command(0) for _ in range(rng.randint(1, 3))]
    if shape == 'infinite':
        d = rng.choice([0, 0, tick / 2, tick * 3, 0.3, 2])
        return 'time {}\nrepeat begin {} end'.format(d, ' '.join(cmds))
    if shape == 'timed':
        d = rng.choice([tick * 2.5, 1, 7, 300, 3600])
        pre = rng.choice(['', g.command(0) + ' '])
        return 'time 0 {}time {}\n{}'.format(pre, d, ' '.join(cmds))
    if shape == 'time_at':
        pre = rng.choice(['', 'time 0 ' + g.command(0) + '\n'])
        return '{}time at {}\n{}'.format(pre, '@PATTERN@', ' '.join(cmds))
    raise AssertionError(shape)


def gen(rng, tier, index):
    from sim import policy
    pop = populations.gen_population(rng, 2, 4, kinds=('plain', 'mz'),
                                     ensure=('plain',))
    tick = rng.choice([0.01, 0.05, 0.1, 0.5, 1.0])
    shape = rng.choice(['straight', 'generated', 'infinite', 'infinite',
                        'timed', 'timed', 'time_at', 'time_at'])
    if shape == 'time_at':
        tick = rng.choice([0.25, 0.5, 1.0])
    hour, minute = rng.randint(0, 23), rng.randint(0, 59)
    second = rng.choice([0.0, 3.2, 41.3, 58.9, 59.95])
    text = _main_text(rng, pop, shape, tick)
    if shape == 'time_at':
        ahead = rng.choice([1, 1, 2, 3])
        total = hour * 60 + minute + ahead
        text = text.replace('@PATTERN@', '{}:{:02d}'.format(
            (total // 60) % 24, total % 60))
    followers = [_follower_text(rng, pop, k)
                 for k in range(rng.choice([0, 0, 1, 1, 2]))]
    how = rng.choice(['agent', 'stop_job', 'stop_current', 'stop_all'])
    bg = rng.random() < 0.25        # the script runs as a background job
    if bg:
        how = rng.choice(['agent', 'stop_job', 'stop_background',
                          'stop_all'])
    if rng.random() < 0.55:
        names = sorted(targets())
        where = rng.choice(names)
        handover = [n for n in names if n.startswith('handover_')]
        if handover and followers and not bg and rng.random() < 0.5 and \
                shape in ('straight', 'generated', 'timed'):
            # a job that ends by itself with others queued behind it: aim at
            # the hand-over
            where = rng.choice(handover)
            how = rng.choice(['stop_all', 'stop_all', 'stop_current', how])
        timing = {'mode': 'target', 'where': where,
                  'k': 1 if where.startswith('handover_')
                  else rng.choice([1, 1, 2, 3, 5, 9]),
                  'force': rng.choice([0, 3, 30, 300])}
    else:
        timing = {'mode': 'delay',
                  'd': rng.choice([0, 0.0005, 0.004, 0.02, tick, tick * 1.5,
                                   0.33, 1.0, 2.5, 61.0])}
    if timing['mode'] == 'delay':
        timing['d'] = min(timing['d'], 250 * tick)
    if shape == 'infinite' and timing['mode'] == 'delay':
        timing['d'] = min(timing['d'], 1.0)
        if text.startswith('time 0\n') or ' set ' not in text and \
                ' on ' not in text and ' off ' not in text:
            timing['d'] = min(timing['d'], 0.02)   # busy loop: keep it short
    rerun = rng.choice([None, 'same', 'other'])
    second_stop = rng.choice([0, tick, 3 * tick]) \
        if rng.random() < 0.15 else None
    if second_stop and shape == 'infinite' and text.startswith('time 0\n'):
        # a busy loop whose first stop is lost (known finding) would spin
        # through the step budget before a late second stop arrives
        second_stop = min(second_stop, 0.05)
    pre_stop = None
    if followers and rng.random() < 0.2:
        # an earlier stop aimed at a job that is still waiting in the queue
        pre_stop = rng.randrange(len(followers))
        rerun = rng.choice(['follower', 'follower', rerun])
    pol = policy.draw_policy(rng, est_len=600, stalls=True)
    if timing['mode'] == 'target' and pol['gran'] == 'opcode':
        pol['gran'] = 'line'
    # stop-current / stop-all as the browser issues them: through the
    # routing layer (web/front_end.py), with the shipped kind of manifest
    # that has no entries of its own for these two pages
    front = how in ('stop_current', 'stop_all') and rng.random() < 0.35
    if bg and how == 'stop_job' and rng.random() < 0.6:
        # /stop/<path> for a background script (listed in the manifest) while
        # foreground jobs come and go: the page forwards the stop only if the
        # controller reports that script as running
        front = True
    return {'policy': pol, 'population': pop, 'tick': tick, 'shape': shape,
            'start': [hour, minute, second], 'main': text,
            'followers': followers, 'how': how, 'timing': timing,
            'rerun': rerun, 'bg': bg, 'pre_stop': pre_stop, 'second': second_stop,
            'other': _follower_text(rng, pop, 5), 'front': front,
            # start the follow-up run at the very instant the stopped run's
            # clock thread wakes up for the last time
            'rerun_at': rng.choice([None, 'clock_wake'])}


def shrink(sc):
    if sc['followers']:
        for i in range(len(sc['followers'])):
            c = copy.deepcopy(sc)
            del c['followers'][i]
            yield c
    if sc['rerun']:
        c = copy.deepcopy(sc)
        c['rerun'] = None
        yield c
    lines = sc['main'].split('\n')
    if len(lines) > 1:
        for i in range(len(lines)):
            c = copy.deepcopy(sc)
            c['main'] = '\n'.join(lines[:i] + lines[i + 1:])
            if c['main'].strip():
                yield c
    if len(sc['population']) > 1:
        text = sc['main'] + ' '.join(sc['followers']) + sc['other']
        for i in range(len(sc['population']) - 1, -1, -1):
            if '"{}"'.format(sc['population'][i]['label']) in text:
                continue
            c = copy.deepcopy(sc)
            del c['population'][i]
            yield c
    if sc['timing']['mode'] == 'target' and sc['timing']['force']:
        c = copy.deepcopy(sc)
        c['timing']['force'] = 0
        yield c
    if sc['policy']['p_stall']:
        c = copy.deepcopy(sc)
        c['policy']['p_stall'] = 0.0
        yield c


# ---------------------------------------------------------------------------
def _owner(rec_type, payload):
    p = dict(payload)
    if rec_type in ('LightSetColor', 'MultiZoneSetColorZones'):
        k = p['color'][3]
        if k >= 3000:
            return 'f{}'.format((k - 3000) // 100)
        return 'main'
    if rec_type == 'LightSetPower':
        d = p['duration'] // 1000
        if d >= 1000:
            return 'f{}'.format((d - 1000) // 100)
        return 'main'
    return 'main'


_solo_cache = {}


def solo_run(text, pop, tick, start):
    """Reference: the script alone, fresh objects, fault-free, baseline
    schedule.  Returns per-device [(type, payload)] or None if it does not
    terminate within the budget (infinite scripts)."""
    from sim import policy
    import datetime
    key = json.dumps([text, pop, tick, start], sort_keys=True)
    if key in _solo_cache:
        return _solo_cache[key]
    from bardolph.controller.script_job import ScriptJob
    env.capture_logs()
    out = {}

    def main(sim):
        net, ls, ok = env.build_world(sim, pop, settings={'sleep_time': tick})
        mark = sim.evno
        job = ScriptJob.from_string(text)
        job.execute()
        out['rec'] = world.wire_records(net, mark, TYPES)

    with world.StdoutCapture():
        sim, res = world.run_sim(
            main, policy.ReplayChooser([]), gran='sync', step_cap=500000,
            start_dt=datetime.datetime(2024, 3, 5, start[0], start[1],
                                       int(start[2]),
                                       int((start[2] % 1) * 1e6)))
    val = out.get('rec') if res.status == 'ok' else None
    if len(_solo_cache) > 500:
        _solo_cache.clear()
    _solo_cache[key] = val
    return val


_timeline_cache = {}


def solo_timeline(text, pop, tick, start, duration):
    """Reference: virtual offsets (from the start of execute()) at which the
    script, run alone and undisturbed, sends its commands during its first
    `duration` seconds."""
    from sim import policy
    import datetime
    import math
    duration = math.ceil(duration / (10 * tick)) * 10 * tick
    key = json.dumps([text, pop, tick, start, round(duration, 6)],
                     sort_keys=True)
    if key in _timeline_cache:
        return _timeline_cache[key]
    from bardolph.controller.script_job import ScriptJob
    from bardolph.lib.job_control import JobControl
    env.capture_logs()
    out = {}

    class TJob(ScriptJob):
        def execute(self):
            out['t0'] = core.current().now
            super().execute()

    def main(sim):
        net, ls, ok = env.build_world(sim, pop, settings={'sleep_time': tick})
        mark = sim.evno
        job = TJob()
        job.load_string(text)
        jc = JobControl()
        agent = jc.add_job(job, 'solo')
        th = world.thread_of_agent(sim, agent)
        sim.join(th, timeout=duration)
        agent.request_stop()
        sim.join(th, timeout=5 + 3 * tick)
        out['wire'] = [w for w in world.wire_timed(net, mark, TYPES)]

    with world.StdoutCapture():
        sim, res = world.run_sim(
            main, policy.ReplayChooser([]), gran='sync', step_cap=500000,
            start_dt=datetime.datetime(2024, 3, 5, start[0], start[1],
                                       int(start[2]),
                                       int((start[2] % 1) * 1e6)))
    val = None
    if res.status == 'ok' and 't0' in out:
        val = [round(w[1] - out['t0'], 9) for w in out['wire']
               if w[1] - out['t0'] <= duration]
    if len(_timeline_cache) > 500:
        _timeline_cache.clear()
    _timeline_cache[key] = (val, duration)
    return _timeline_cache[key]


def execute(scenario, chooser):
    import datetime
    from sim import flask_stub
    flask_stub.install()
    from bardolph.controller.script_job import ScriptJob
    sc = scenario
    cap = env.capture_logs()
    viol = []
    hist = []
    st = {}
    tgt = targets()

    def violation(sig, msg):
        if not any(v['sig'] == 'C09/' + sig for v in viol):
            viol.append({'sig': 'C09/' + sig, 'msg': msg})

    class RecJob(ScriptJob):
        def __init__(self, name):
            super().__init__()
            self.jname = name
            self.runs = 0

        def execute(self):
            sim = core.current()
            self.runs += 1
            hist.append(('exec_start', self.jname, sim.next_event(), sim.now,
                         self.runs))
            try:
                super().execute()
            finally:
                if not sim.aborted:
                    hist.append(('exec_end', self.jname, sim.next_event(),
                                 sim.now, self.runs))

        def request_stop(self):
            sim = core.current()
            hist.append(('stop_req', self.jname, sim.next_event(), sim.now))
            super().request_stop()

    tick = sc['tick']
    timing = sc['timing']

    def main(sim):
        from web.web_app import WebApp
        from bardolph.lib import clock as clock_mod, injection, i_lib
        net, ls, ok = env.build_world(
            sim, sc['population'],
            settings={'sleep_time': tick, 'manifest_file_name': None})
        st['net'] = net
        armed = st.setdefault('armed', {})

        st['armed_ref'] = armed
        wa = WebApp()
        jc = world.job_control_of(wa)
        # (imported and made pre-emptible in every run, so that a run's
        # event log does not depend on what the process ran before)
        from web import front_end, i_web
        env.install_web()
        if sc.get('front'):
            injection.bind_instance(wa).to(i_web.WebApp)
            if sc['how'] == 'stop_job':
                from web.web_app import ScriptControl
                wa._scripts['main'] = ScriptControl(
                    'main.ls', bool(sc.get('bg')), 'Main', 'main')

        def front_route(path):
            # what the page shows afterwards (or that rendering it fails for
            # want of a manifest entry) is C20's business; the stop is ours
            sim.count('stop_through_front_end')
            try:
                front_end.blueprint.dispatch(path)
            except core.SimAbort:
                raise
            except Exception:
                sim.count('front_end_page_failed')
        main_job = RecJob('main')
        main_job.load_string(sc['main'])
        if main_job.program is None:
            st['compile_error'] = main_job.compile_errors
            return
        fjobs = []
        for i, text in enumerate(sc['followers']):
            j = RecJob('f{}'.format(i))
            j.load_string(text)
            fjobs.append(j)
        st['mark'] = sim.evno
        # when has a job thread armed its run loop?  Machine.run() sets the
        # flag and then starts its clock: a recording subclass of the real
        # Clock notes the first start() per job thread (robust against line
        # shifts in machine.py)
        st.setdefault('armed', {})
        if sc.get('bg'):
            agent = jc.spawn_job(main_job, 'main')
        else:
            agent = jc.add_job(main_job, 'main')
        for j in fjobs:
            jc.add_job(j, j.jname)
        st['queued_ev'] = sim.next_event()
        main_thread = world.thread_of_agent(sim, agent)
        st['main_thread'] = main_thread

        def do_stop():
            how = sc['how']
            st['S_inv'] = sim.next_event()
            st['t_inv'] = sim.now
            st['main_state_at_inv'] = main_thread.state
            st['main_tag_at_inv'] = main_thread.tag
            st['main_block_at_inv'] = main_thread.block_kind
            try:
                if how == 'agent':
                    agent.request_stop()
                elif how == 'stop_job':
                    if sc.get('front'):
                        front_route('/stop/main')
                    else:
                        wa.stop_script('main')
                elif how == 'stop_current':
                    if sc.get('front'):
                        front_route('/stop-current')
                    else:
                        wa.stop_current()
                elif how == 'stop_background':
                    jc.stop_background()
                elif sc.get('front'):
                    front_route('/stop-all')
                else:
                    wa.stop_all()
            except core.SimAbort:
                raise
            except Exception as ex:
                st['stop_exc'] = '{}: {}'.format(type(ex).__name__, ex)
            sim.stall_enabled = False
            sim.forced = None
            # liveness is judged under a fair scheduler: from here on no
            # runnable thread is passed over more than a few times
            sim.fairness = 4
            st['S'] = sim.next_event()
            st['t_S'] = sim.now
            st['queue_at_S'] = [a.name for a in jc.get_queued()]
            st['calls'] = [(st['S_inv'], st['S'])]
            if sc.get('second') is not None:
                # the same request once more (idempotent; possibly stale)
                sim.sleep(sc['second'])
                inv2 = sim.next_event()
                try:
                    if how == 'agent':
                        agent.request_stop()
                    elif how == 'stop_job':
                        if sc.get('front'):
                            front_route('/stop/main')
                        else:
                            wa.stop_script('main')
                    elif how == 'stop_current':
                        if sc.get('front'):
                            front_route('/stop-current')
                        else:
                            wa.stop_current()
                    elif how == 'stop_background':
                        jc.stop_background()
                    elif sc.get('front'):
                        front_route('/stop-all')
                    else:
                        wa.stop_all()
                except core.SimAbort:
                    raise
                except Exception as ex:
                    st['stop_exc'] = 'second {}: {}'.format(
                        type(ex).__name__, ex)
                st['calls'].append((inv2, sim.next_event()))

        def requester():
            if timing['mode'] == 'delay':
                sim.sleep(timing['d'])
            if sc.get('pre_stop') is not None:
                try:
                    wa.stop_script('f{}'.format(sc['pre_stop']))
                except core.SimAbort:
                    raise
                except Exception as ex:
                    st['stop_exc'] = 'pre-stop {}: {}'.format(
                        type(ex).__name__, ex)
                st['pre_stop_ev'] = sim.next_event()
            do_stop()

        if timing['mode'] == 'target':
            want = tgt.get(timing['where'])
            state = {'n': 0}

            def watcher(s, cur):
                if st.get('trigger') or cur is not main_thread:
                    return
                tag = cur.tag
                state['seen'] = state.get('seen', 0) + 1
                if state['seen'] > 1200:        # target never reached
                    st['trigger'] = True
                    return
                if tuple(tag[:2]) == tuple(want):
                    state['n'] += 1
                    if state['n'] >= timing['k']:
                        st['trigger'] = True
                        if timing['force']:
                            s.force('req0', timing['force'])
            sim.watch.append(watcher)
            sim.parked['req0'] = lambda: (not st.get('trigger') and
                                          main_thread.state != 'done')
        req = sim.spawn(requester, 'req')
        sim.join(req)
        # ---- after the stop returned -------------------------------------
        bound = 2 * tick + 3 * (1.0 + 0.01) + 0.05
        sim.set_budget(40000, 'job-still-running-after-stop')
        victims = [h[1] for h in hist if h[0] == 'stop_req']
        st['victims'] = victims
        # every job that was told to stop must end promptly
        for jname in dict.fromkeys(victims):
            th = _thread_of(sim, hist, jname)
            if th is None:
                continue
            if not sim.join(th, timeout=bound):
                st.setdefault('hung', []).append(
                    (jname, th.state, th.block_kind, th.tag))
        if st.get('hung'):
            st['stacks'] = sim._stacks()
            return
        sim.set_budget(0, '')
        # let the rest of the queue run
        if main_thread.state != 'done' and 'main' not in victims:
            st['drained'] = None        # main was never told to stop
            return
        sim.set_budget(300000, 'queue-did-not-drain')
        deadline = sim.now + 60.0 + 50 * tick
        while jc.has_jobs() and sim.now < deadline:
            sim.sleep(max(tick, 0.05))
        st['drained'] = not jc.has_jobs()
        st['S_follow'] = sim.next_event()
        # ---- follow-up run ------------------------------------------------
        if st['drained'] and sc['rerun']:
            if sc['rerun'] == 'same' and _finite_and_quick(sc):
                fj = main_job
            elif sc['rerun'] == 'follower' and sc['followers']:
                k = sc.get('pre_stop') or 0
                fj = RecJob('f{}'.format(k))
                fj.load_string(sc['followers'][k])
            else:
                fj = RecJob('other')
                fj.load_string(sc['other'])
            if sc.get('rerun_at') == 'clock_wake':
                cl = [t for t in sim.threads
                      if t.role == 'clock' and t.state == 'blocked'
                      and t.block_kind == 'sleep' and t.wake_time is not None]
                if cl:
                    w = min(t.wake_time for t in cl)
                    if w > sim.now:
                        sim.sleep(w - sim.now)
                    sim.count('rerun_as_old_clock_thread_ends')
                    # ... and that thread may be slow to die: hold it at the
                    # very end of its body until the new run has started its
                    # clock (a legal schedule)
                    st['linger'] = {'names': {t.name for t in cl},
                                    'until': len(st.setdefault(
                                        'clock_starts', [])) + 1}
                    sim.fairness = 60

                    def linger_watch(s, cur):
                        lg = st.get('linger')
                        if lg is None or cur is None:
                            return
                        if cur.name in lg['names'] and \
                                tuple(cur.tag or ()) == ('thread.exiting',) \
                                and cur.name not in s.parked:
                            s.parked[cur.name] = lambda: (
                                len(st['clock_starts']) < lg['until'])
                    sim.watch.append(linger_watch)
            st['rerun_job'] = fj.jname
            st['rerun_mark'] = sim.next_event()
            jc.add_job(fj, fj.jname)
            deadline = sim.now + 4000.0
            while jc.has_jobs() and sim.now < deadline:
                sim.sleep(max(tick, 0.05))
            st['rerun_done'] = not jc.has_jobs()
        sim.set_budget(0, '')

    from bardolph.lib import clock as clock_mod_

    def w_start(orig):
        def start(self):
            me = core.me()
            armed = st.get('armed_ref')
            if armed is not None and me is not None and \
                    me.role == 'job' and me.name not in armed:
                armed[me.name] = core.current().evno
            orig(self)
            st.setdefault('clock_starts', []).append(
                me.name if me is not None else '?')
        return start

    start = sc['start']
    with world.StdoutCapture(), world.Instrument(clock_mod_.Clock,
                                                 {'start': w_start}):
        sim, out = world.run_sim(
            main, chooser, gran=sc['policy']['gran'], step_cap=300000,
            start_dt=datetime.datetime(2024, 3, 5, start[0], start[1],
                                       int(start[2]),
                                       int((start[2] % 1) * 1e6)),
            stall=True, max_stall=max(2.0, 2 * tick), fairness=60)
    res = {'violations': viol, 'digest': sim.digest(),
           'switch_digest': sim.switch_digest(), 'sim_time': sim.now,
           'steps': sim.steps, 'faults': {}, 'probes': dict(sim.stats),
           'deviations': list(sim.deviations), 'harness_error': None,
           'shape': '{}:{}{}:{}:{}:{}'.format(
               sc['shape'], 'bg-' if sc.get('bg') else '', sc['how'],
               timing['mode'], timing.get('where', ''),
               len(sc['followers']))}
    probes = res['probes']
    res['faults'] = {'stop_request': 1 + (sc.get('pre_stop') is not None),
                     'stall': sim.stats.get('stall', 0),
                     'spin_advance': sim.stats.get('spin_advance', 0),
                     'thread_preemption': sim.switches}
    if 'compile_error' in st:
        res['harness_error'] = 'script rejected: {}\n{}'.format(
            st['compile_error'], sc['main'])
        return res
    if out.status == 'budget':
        sig = 'hang/' + out.detail
        for jname in dict.fromkeys(h[1] for h in hist if h[0] == 'stop_req'):
            if not _events(hist, 'exec_end', jname) and \
                    _preceded_arming(st, hist, sim, jname):
                sig = KNOWN_PRE_ARM
        violation(sig, '{}: threads {}'.format(
            out.detail, world.fmt_stacks(out.stacks)))
        return res
    if out.status == 'deadlock':
        violation('hang/deadlock', 'no thread can run: ' +
                  world.fmt_stacks(out.stacks))
        return res
    if out.status != 'ok':
        res['harness_error'] = 'simulation ended {}: {} {}'.format(
            out.status, out.detail, world.fmt_stacks(out.stacks))
        return res
    _judge(sc, st, hist, sim, cap, violation, probes, res)
    return res


def _finite_and_quick(sc):
    if sc['shape'] in ('straight', 'generated'):
        return True
    if sc['shape'] == 'timed':
        import re
        ds = [float(x) for x in re.findall(r'time ([0-9.]+)', sc['main'])]
        return max(ds) / sc["tick"] <= 150
    return False


def _thread_of(sim, hist, jname):
    # job threads are created in start order; map through exec_start order
    # is not possible before they run, so use the agents' thread objects
    for t in sim.threads:
        if t.role == 'job' and getattr(t.target, '__self__', None) is not None:
            agent = t.target.__self__
            if getattr(agent.job, 'jname', None) == jname and \
                    t.state != 'done':
                return t
    for t in sim.threads:
        if t.role == 'job' and getattr(t.target, '__self__', None) is not None:
            agent = t.target.__self__
            if getattr(agent.job, 'jname', None) == jname:
                return t
    return None


KNOWN_PRE_ARM = 'stop-lost/before-first-instruction'


def _preceded_arming(st, hist, sim, jname):
    """Did the stop request reach job `jname` before its Machine.run() had
    armed the run loop (set _keep_running = True)?"""
    req = _events(hist, 'stop_req', jname)
    if not req:
        return False
    th = None
    for t in sim.threads:
        if t.role == 'job' and getattr(t.target, '__self__', None) is not None:
            if getattr(t.target.__self__.job, 'jname', None) == jname:
                th = t
                break
    if th is None:
        return False
    a = st.get('armed', {}).get(th.name)
    return a is None or req[0][2] <= a


def _events(hist, kind, jname=None):
    return [h for h in hist if h[0] == kind and
            (jname is None or h[1] == jname)]


def _judge(sc, st, hist, sim, cap, violation, probes, res):
    net = st['net']
    S_inv, S = st['S_inv'], st['S']
    tick = sc['tick']
    how = sc['how']
    victims = st.get('victims', [])
    where = sc['timing'].get('where')

    def running_over(jname, a, b):
        """Was the first run of the job executing during all of [a, b]?"""
        s = _events(hist, 'exec_start', jname)
        e = _events(hist, 'exec_end', jname)
        if not s:
            return False
        return s[0][2] < a and (not e or e[0][2] > b)

    main_started = bool(_events(hist, 'exec_start', 'main'))
    main_end = _events(hist, 'exec_end', 'main')
    main_ended_before = bool(main_end) and main_end[0][2] < S_inv
    if st.get('stop_exc'):
        violation('stop-raises', '{} raised {}'.format(how, st['stop_exc']))
    res['nontrivial'] = not main_ended_before

    # ---- probes: where did the stop land ---------------------------------
    tag0 = st.get('main_tag_at_inv') or ()
    if any(tuple(tag0[:2]) == tuple(targets().get(k, ()))
           for k in ('handover_clear', 'handover_next', 'handover_pop',
                     'handover_unlock')):
        probes['stop_during_handover'] = 1
    if main_ended_before:
        probes['stop_after_end_noop'] = 1
    else:
        if st['main_block_at_inv'] == 'event':
            probes['stop_in_event_wait'] = 1
        if not main_started or _events(hist, 'exec_start',
                                       'main')[0][2] > S_inv:
            probes['stop_before_first_instruction'] = 1
        tag = st['main_tag_at_inv']
        tg = targets()
        if tuple(tag[:2]) == tuple(tg.get('before_event_wait', ())):
            probes['stop_between_check_and_wait'] = 1
        if tuple(tag[:2]) in (tuple(tg.get('loop_test', ())),
                              tuple(tg.get('dispatch', ()))):
            probes['stop_between_instructions'] = 1
        if tuple(tag[:2]) == tuple(tg.get('finishing', ())):
            probes['stop_as_script_finished'] = 1
        if sc['shape'] == 'time_at' and st['main_block_at_inv'] == 'event':
            probes['stop_in_time_of_day_wait'] = 1

    # ---- promptness / never lost -----------------------------------------
    if st.get('hung'):
        jname, state, kind, tag = st['hung'][0]
        site = 'blocked-' + str(kind) if state == 'blocked' else 'running'
        if sc['shape'] == 'time_at' and jname == 'main':
            site += '/time-of-day'
        sig = 'hang/' + site
        if _preceded_arming(st, hist, sim, jname):
            sig = KNOWN_PRE_ARM
        violation(sig,
                  'job {} was told to stop (route {}, returned at t={:.3f}) '
                  'but its thread is still alive {:.2f} virtual s later '
                  '(state {}, at {}); stop landed while job thread was at {} '
                  '[{}]: {}'.format(
                      jname, how, st['t_S'],
                      sim.now - st['t_S'], state, tag, st['main_tag_at_inv'],
                      st['main_block_at_inv'],
                      world.fmt_stacks(st.get('stacks', {}))))
        return
    aimed_at_main = how in ('agent', 'stop_job', 'stop_background') or (
        how in ('stop_current', 'stop_all') and
        (sc.get('bg') or running_over('main', S_inv, S)))
    main_live_during = (not main_ended_before and
                        (not main_end or main_end[0][2] > S))
    if aimed_at_main and main_live_during and 'main' not in victims:
        violation('stop-lost/not-routed',
                  '{} returned while job main was live but the job never '
                  'received the stop request'.format(how))

    # ---- a stop never makes the script run ahead of its own time line ------
    wire = world.wire_timed(net, st['mark'], TYPES)
    starts = _events(hist, 'exec_start', 'main')
    if 'main' in victims and starts and sc['shape'] != 'time_at':
        t_start = starts[0][3]
        mine = [w for w in wire if _owner(w[3], w[4]) == 'main' and
                (st.get('rerun_mark') is None or w[0] < st['rerun_mark'])]
        # only commands sent after the stop was invoked can be its doing
        if mine and any(w[0] > S_inv for w in mine):
            span = max(w[1] for w in mine) - t_start + 2 * tick + 0.05
            ref, dur = solo_timeline(sc['main'], sc['population'], tick,
                                     sc['start'], span)
            if ref is not None:
                slack = tick + 0.02
                for k, w in enumerate(mine):
                    off = w[1] - t_start
                    if k >= len(ref):
                        if off <= dur - slack:
                            violation(KNOWN_PRE_ARM if _preceded_arming(
                                st, hist, sim, 'main') else
                                'ahead-of-schedule',
                                      'stopped job sent command #{} {:.4f} s '
                                      'after its start; undisturbed, the '
                                      'script sends only {} commands in its '
                                      'first {:.2f} s'.format(
                                          k + 1, off, len(ref), dur))
                            break
                        continue
                    if off < ref[k] - slack:
                        violation(KNOWN_PRE_ARM if _preceded_arming(
                            st, hist, sim, 'main') else 'ahead-of-schedule',
                                  'command #{} of the stopped job went out '
                                  '{:.4f} s after its start, {:.4f} s earlier '
                                  'than in an undisturbed run ({:.4f}); the '
                                  'stop call ran from t={:.4f} to {:.4f}'
                                  .format(k + 1, off, ref[k] - off, ref[k],
                                          st['t_inv'], st['t_S']))
                        break

    # ---- no further commands from a stopped job ---------------------------
    for jname in dict.fromkeys(victims):
        req_ev = _events(hist, 'stop_req', jname)[0][2]
        ended = _events(hist, 'exec_end', jname)
        end_ev = ended[0][2] if ended else None
        if end_ev is not None and end_ev < req_ev:
            continue
        s_v = min([ret for inv, ret in st.get('calls', [])
                   if inv <= req_ev <= ret] or [S])
        after = [w for w in wire if w[0] > s_v
                 and _owner(w[3], w[4]) == jname
                 and (st.get('rerun_mark') is None or
                      w[0] < st['rerun_mark'])]
        kinds = {(w[3], w[4]) for w in after}
        per_dev = {}
        for w in after:
            per_dev[w[2]] = per_dev.get(w[2], 0) + 1
        if len(kinds) > 1 or any(n > 3 for n in per_dev.values()):
            violation(KNOWN_PRE_ARM if _preceded_arming(st, hist, sim, jname)
                      else 'commands-after-stop',
                      'job {} sent {} further commands of {} different '
                      'statements after the stop call returned (event {}): '
                      '{}'.format(jname, len(after), len(kinds), s_v,
                                  [(w[0], w[2], w[3]) for w in after[:6]]))
        if end_ev is None:
            violation(KNOWN_PRE_ARM if _preceded_arming(st, hist, sim, jname)
                      else 'hang/no-end',
                      'job {} never ended'.format(jname))

    # ---- queue continues / stop-all empties the queue ---------------------
    if st.get('drained') is None:
        return
    if not st.get('drained'):
        violation('queue-stuck',
                  'controller still has jobs {} virtual s after the stop'
                  .format(round(sim.now - st['t_S'], 2)))
        return
    for i, text in enumerate(sc['followers']):
        jname = 'f{}'.format(i)
        started = [h for h in _events(hist, 'exec_start', jname)
                   if st.get('rerun_mark') is None or h[2] < st['rerun_mark']]
        if how == 'stop_all':
            if jname in st['queue_at_S']:
                violation('stop-all/queue-not-empty',
                          'stop_all returned with {} still queued'.format(
                              jname))
            if started and started[0][2] > S:
                # popped before the clear but started after the call returned
                got = [w for w in wire if _owner(w[3], w[4]) == jname
                       and w[0] > S and (st.get('rerun_mark') is None or
                                         w[0] < st['rerun_mark'])]
                if got:
                    violation(KNOWN_PRE_ARM
                              if _preceded_arming(st, hist, sim, jname)
                              else 'stop-all/job-ran-after',
                              'job {} started after stop_all returned and '
                              'sent {} commands'.format(jname, len(got)))
            if not started:
                probes['stop_all_cleared_queue'] = 1
            continue
        if jname in victims:
            continue
        if sc.get('pre_stop') == i:
            continue        # a stop was aimed at it while it waited: unjudged
        if not started:
            violation('follower-never-started',
                      'job {} queued behind the stopped job never started'
                      .format(jname))
            continue
        _compare_complete(sc, jname, text, wire,
                          (st['mark'], st.get('rerun_mark')), violation,
                          probes, 'follower')

    # ---- a job the stop was not aimed at runs to completion ---------------
    if 'main' not in victims and sc['shape'] != 'infinite' and main_end:
        _compare_complete(sc, 'main', sc['main'], wire,
                          (st['mark'], st.get('rerun_mark')), violation,
                          probes, 'unstopped')

    # ---- the stop is scoped to the run it was aimed at --------------------
    if st.get('rerun_job'):
        if not st.get('rerun_done'):
            violation('rerun-stuck', 'follow-up job {} did not finish'.format(
                st['rerun_job']))
        else:
            if st['rerun_job'] == 'main':
                text, name = sc['main'], 'main'
            elif st['rerun_job'] == 'other':
                text, name = sc['other'], 'f5'
            else:
                name = st['rerun_job']
                text = sc['followers'][int(name[1:])]
            _compare_complete(sc, name, text, wire,
                              (st['rerun_mark'], None), violation, probes,
                              'rerun')
            if st['rerun_job'] == 'main':
                probes['rerun_same_object'] = 1
    aborted = [m for lv, m in cap.records if 'Machine stopped due to' in m]
    if aborted:
        violation('script-aborted', aborted[0])
    res['sample'] = {
        'main': sc['main'], 'shape': sc['shape'], 'tick': tick,
        'route': how, 'timing': sc['timing'], 'followers': len(sc['followers']),
        'rerun': sc['rerun'], 'victims': victims,
        'job_thread_at_stop': [str(st['main_tag_at_inv']),
                               st['main_block_at_inv']],
        'virtual_s_from_stop_to_end': (
            round(_events(hist, 'exec_end', victims[0])[0][3] - st['t_S'], 4)
            if victims and _events(hist, 'exec_end', victims[0]) else None),
        'policy': sc['policy']}


def _compare_complete(sc, owner, text, wire, window, violation, probes, what):
    exp = solo_run(text, sc['population'], sc['tick'], sc['start'])
    if exp is None:
        return
    lo, hi = window if window else (None, None)
    got = {}
    for w in wire:
        if _owner(w[3], w[4]) != owner:
            continue
        if lo is not None and w[0] <= lo:
            continue
        if hi is not None and w[0] >= hi:
            continue
        got.setdefault(w[2], []).append((w[3], w[4]))
    for dev in range(len(sc['population'])):
        e = [r for r in exp.get(dev, []) if _owner(r[0], r[1]) == owner
             or owner == 'main']
        g = got.get(dev, [])
        if e != g:
            violation('{}-incomplete'.format(what),
                      '{} run of job {} delivered {} commands to device {}, '
                      'its solo run delivers {} (first difference {})'.format(
                          what, owner, len(g), dev, len(e),
                          _first_diff(g, e)))
            return
    if what == 'follower':
        probes['follower_ran_complete'] = 1


def _first_diff(a, b):
    for k in range(max(len(a), len(b))):
        x = a[k] if k < len(a) else None
        y = b[k] if k < len(b) else None
        if x != y:
            return k, x, y
    return None


if __name__ == '__main__':
    from sim import driver
    sys.exit(driver.main(sys.modules[__name__]))
