"""C13 - the light directory stays self-consistent over any discovery/expiry
history.

Real: LightSet (discover, refresh, _garbage_collect, getters), SortedList,
Light.get_age, VmDiscover-style stepping; in the wire/thread families also
LifxLanApi._build_light, lifx_lan_light constructors and lifxlan discovery.
Model: name -> (group, location, last seen).  Only public getters are read.
"""
import copy
import itertools
import sys

from sim import core, env, world

PROP = 'C13'
LEVEL = 'exploration'
RULE = ('histories over small alphabets (<=5 bulbs, <=4 labels, <=3 groups, '
        '<=3 locations): population snapshot changes (appear, vanish, rename, '
        'move group, move location, two bulbs sharing a label), discover, '
        'failed discover, advance time by a delta around light_gc_time, '
        'refresh (= discover + expiry), failed refresh, stepping next/prev '
        'from present or removed names and full walks, and a `repeat all` / '
        '`repeat in group` script at the end. Four families: api (in-process '
        'lights through the LightApi injection seam, long random histories), '
        'enum (all histories of length <=2 [quick] / <=3 [thorough] over a '
        '2-bulb alphabet, exhaustively), wire (real lifxlan discovery on the '
        'simulated LAN), thread (the real _light_refresh thread on its '
        'timer, observed at quiescent points). Non-trivial: the history '
        'changed the directory at least twice; distinct = distinct history.')
ASSUMPTIONS = [
    'the population only changes between steps (the property quantifies over '
    'histories, not over schedules inside one discover)',
    'in the wire family a light whose age is within the duration of one '
    'discovery of the expiry limit may go either way',
]
COMPONENTS = {
    'real': ['bardolph/controller/light_set.py', 'bardolph/lib/sorted_list.py',
             'bardolph/controller/light.py', 'bardolph/vm/vm_discover.py + '
             'machine/parser (final iteration script)',
             'wire/thread: bardolph/controller/lifx_lan_api.py, '
             'lifx_lan_light.py, lifxlan'],
    'stub': ['clock', 'api family: LightApi returning light.Light objects',
             'wire/thread: UDP network, bulb firmware'],
}
PROBES = ['expiry_removed_light', 'group_emptied_and_deleted',
          'group_recreated', 'rename', 'moved_group', 'shared_label',
          'failed_discover', 'step_from_removed_name', 'vanish_then_reappear',
          'refresh_thread_ran', 'script_iteration_checked']
WALL_CAP = {'quick': 140, 'thorough': 1500}

LABELS = ['Amp', 'Bed', 'Cot', 'Den']
GROUPS = ['G1', 'G2', 'G3']
LOCS = ['L1', 'L2', 'L3']


def runs_for(tier):
    return 30000 if tier == "quick" else 600000


# ---------------------------------------------------------------------------
def _rand_state(rng, n_labels=4, n_groups=3, n_locs=3):
    if rng.random() < 0.25:
        return None
    return [rng.choice(LABELS[:n_labels]), rng.choice(GROUPS[:n_groups]),
            rng.choice(LOCS[:n_locs])]


def _mutate(rng, pop):
    pop = copy.deepcopy(pop)
    i = rng.randrange(len(pop))
    how = rng.choice(['appear', 'vanish', 'rename', 'group', 'loc', 'share',
                      'all_new'])
    if how == 'all_new':
        return [_rand_state(rng) for _ in pop]
    if pop[i] is None or how == 'appear':
        pop[i] = _rand_state(rng) or [rng.choice(LABELS), GROUPS[0], LOCS[0]]
    elif how == 'vanish':
        pop[i] = None
    elif how == 'rename':
        pop[i][0] = rng.choice(LABELS)
    elif how == 'group':
        pop[i][1] = rng.choice(GROUPS)
    elif how == 'loc':
        pop[i][2] = rng.choice(LOCS)
    else:
        others = [p for j, p in enumerate(pop) if j != i and p is not None]
        if others:
            pop[i][0] = rng.choice(others)[0]
    return pop


def gen(rng, tier, index):
    from sim import policy
    family = rng.choice(['api', 'api', 'api', 'api', 'wire', 'thread'])
    n_bulbs = rng.randint(1, 5)
    gc = rng.choice([20, 60, 300])
    if family == 'api' and rng.random() < 0.12:
        gc = rng.choice([0, 0, 1])     # edge: "expire at once" is a legal age
    pop = [_rand_state(rng) for _ in range(n_bulbs)]
    steps = [['pop', pop]]
    n_steps = rng.randint(3, 12) if family == 'api' else rng.randint(2, 6)
    if family == 'wire':
        # unique labels on the wire (reply order would decide duplicates)
        pop = _unique(pop, rng)
        steps = [['pop', pop]]
    cur = pop
    for _ in range(n_steps):
        k = rng.choice(['pop', 'pop', 'discover', 'discover', 'refresh',
                        'refresh', 'advance', 'advance', 'fail', 'step',
                        'walk'])
        if k == 'pop':
            cur = _mutate(rng, cur)
            if family in ('wire', 'thread'):
                cur = _unique(cur, rng)
            steps.append(['pop', cur])
        elif k == 'advance':
            dt = max(0, rng.choice([1, gc - 2, gc + 2, gc // 2, 2 * gc, gc]))
            steps.append(['advance', dt])
        elif k == 'fail':
            steps.append([rng.choice(['fail_discover', 'fail_refresh'])])
        elif k == 'step':
            steps.append(['step', rng.choice(['next', 'prev']),
                          rng.choice(LABELS + ['A', 'Zed', 'Bee'])])
        elif k == 'walk':
            steps.append(['walk', rng.choice(['next', 'prev']),
                          rng.choice(['list', 'groups', 'locations',
                                      'members'])])
        else:
            steps.append([k])
    if family == 'thread':
        steps = [s for s in steps if s[0] in ('pop', 'advance', 'step',
                                              'walk')]
        if not any(s[0] == 'advance' for s in steps):
            steps.append(['advance', gc + 2])
    pol = policy.draw_policy(rng, est_len=200, stalls=False)
    pol['gran'] = 'sync'
    style = rng.choice(['plain', 'plain', 'mixed', 'overlap'])
    if family == 'api' and rng.random() < 0.1:
        style = 'empty'     # a bulb, a group or a location without a name
    _restyle(steps, NAME_STYLES[style])
    return {'family': family, 'policy': pol, 'gc': gc, 'steps': steps,
            'n_bulbs': n_bulbs, 'names': style,
            'settings': {'default_num_lights': rng.choice([None, None, 5])}}


# Name alphabets (injective renamings of the generator's working names):
# mixed case, blanks and common prefixes; names shared between lights,
# groups and locations.
NAME_STYLES = {
    'plain': {},
    'mixed': {'Amp': 'amp', 'Bed': 'Bed', 'Cot': 'bed lamp', 'Den': 'Zed 2',
              'A': 'a', 'Zed': 'Zed', 'Bee': 'bee',
              'G1': 'Zoo', 'G2': 'kitchen', 'G3': 'Kitchen 2',
              'L1': 'Work', 'L2': 'home', 'L3': 'attic'},
    'overlap': {'G1': 'Amp', 'G2': 'Bed', 'L1': 'Amp', 'L2': 'G3'},
    'empty': {'Amp': '', 'G1': '', 'L2': ''},
}


def _restyle(steps, ren):
    if not ren:
        return
    for s in steps:
        if s[0] == 'pop':
            s[1] = [None if p is None else
                    [ren.get(p[0], p[0]),
                     ren.get(p[1], p[1]) if p[1].startswith('G') else p[1],
                     ren.get(p[2], p[2]) if p[2].startswith('L') else p[2]]
                    for p in s[1]]
        elif s[0] == 'step':
            s[2] = ren.get(s[2], s[2])


def _unique(pop, rng):
    seen = set()
    out = []
    for p in pop:
        if p is None:
            out.append(None)
            continue
        p = list(p)
        if p[0] in seen:
            free = [lb for lb in LABELS if lb not in seen]
            if not free:
                out.append(None)
                continue
            p[0] = rng.choice(free)
        seen.add(p[0])
        out.append(p)
    return out


def shrink(sc):
    for i in range(len(sc['steps']) - 1, 0, -1):
        c = copy.deepcopy(sc)
        del c['steps'][i]
        yield c
    for i, s in enumerate(sc['steps']):
        if s[0] == 'pop':
            for j, p in enumerate(s[1]):
                if p is not None and i > 0:
                    c = copy.deepcopy(sc)
                    c['steps'][i][1][j] = None
                    yield c


# ---------------------------------------------------------------------------
# Enumerated family: every history of bounded length over a tiny alphabet
# ---------------------------------------------------------------------------
def _enum_alphabet():
    states = [None] + [[lb, g, 'L1'] for lb in ('Amp', 'Bed')
                       for g in ('G1', 'G2')]
    snaps = [[a, b] for a in states for b in states]
    ops = []
    for s in snaps:
        ops.append([['pop', s], ['discover']])
        ops.append([['pop', s], ['refresh']])
    ops.append([['fail_discover']])
    ops.append([['advance', 10]])
    ops.append([['advance', 25]])
    return ops


def extra_cases(tier):
    ops = _enum_alphabet()
    depth = 2 if tier == 'quick' else 3
    cases = []
    batch = []
    for n in range(1, depth + 1):
        for combo in itertools.product(range(len(ops)), repeat=n):
            steps = [['pop', [None, None]]]
            for k in combo:
                steps.extend(copy.deepcopy(ops[k]))
            steps.append(['walk', 'next', 'list'])
            steps.append(['walk', 'prev', 'members'])
            steps.append(['step', 'next' if len(combo) % 2 else 'prev',
                          'Amp'])
            batch.append(steps)
            if len(batch) >= 150:
                cases.append(_enum_case(batch))
                batch = []
    if batch:
        cases.append(_enum_case(batch))
    return cases


def _enum_case(histories):
    return {'family': 'enum', 'gc': 20, 'histories': histories,
            'policy': {'kind': 'seq', 'p_switch': 0.0, 'p_stall': 0.0,
                       'depth': 1, 'est_len': 100, 'gran': 'sync'},
            'settings': {}, 'n_bulbs': 2}


# ---------------------------------------------------------------------------
class Model:
    def __init__(self, gc):
        self.gc = gc
        self.lights = {}        # name -> [group, location, last_seen]

    def discover(self, seq, now):
        for name, group, loc in seq:
            self.lights[name] = [group, loc, now]

    def expire(self, now, slack=0.0):
        """Returns (must_go, may_go)."""
        must, may = [], []
        for name, (_g, _l, seen) in list(self.lights.items()):
            age = now - seen
            if age > self.gc + slack:
                must.append(name)
            elif age > self.gc - slack and slack:
                may.append(name)
        return must, may

    def names(self):
        return sorted(self.lights)

    def groups(self):
        out = {}
        for n, (g, _l, _s) in self.lights.items():
            out.setdefault(g, []).append(n)
        return {g: sorted(v) for g, v in out.items()}

    def locations(self):
        out = {}
        for n, (_g, l, _s) in self.lights.items():
            out.setdefault(l, []).append(n)
        return {g: sorted(v) for g, v in out.items()}


def check_invariants(ls, model, violation, where):
    names = list(ls.get_light_names())
    if names != sorted(names) or len(set(names)) != len(names):
        violation('names-not-sorted-unique',
                  '{}: get_light_names() = {}'.format(where, names))
        return False
    if names != model.names():
        violation('names-differ',
                  '{}: directory lists {}, the lights known after this '
                  'history are {}'.format(where, names, model.names()))
        return False
    objs = sorted(l.get_name() for l in ls.get_lights())
    if objs != names or ls.get_light_count() != len(names):
        violation('lights-differ',
                  '{}: get_lights() names {} (count {}), light names {}'
                  .format(where, objs, ls.get_light_count(), names))
        return False
    for n in names + ['Nobody']:
        if (ls.get_light(n) is not None) != (n in model.lights):
            violation('get-light', '{}: get_light({!r}) is {}'.format(
                where, n, ls.get_light(n)))
            return False
    for what, got_names, getter, want in (
            ('group', list(ls.get_group_names()), ls.get_group_lights,
             model.groups()),
            ('location', list(ls.get_location_names()),
             ls.get_location_lights, model.locations())):
        if got_names != sorted(want):
            violation(what + '-names',
                      '{}: {} names {}, non-empty {}s are {}'.format(
                          where, what, got_names, what, sorted(want)))
            return False
        for g in got_names:
            members = list(getter(g) or [])
            if not members:
                violation(what + '-empty-kept',
                          '{}: {} {!r} is listed but has no members'.format(
                              where, what, g))
                return False
            if members != want[g]:
                violation(what + '-members',
                          '{}: {} {!r} lists {}, its members are {}'.format(
                              where, what, g, members, want[g]))
                return False
        if getter('NoSuch') is not None:
            violation(what + '-unknown', '{}: unknown {} is not None'.format(
                where, what))
            return False
    return True


def check_step(lst, direction, start, violation, where):
    ref = sorted(lst)
    if direction == 'next':
        want = next((x for x in ref if x > start), None)
        got = lst.next(start)
    else:
        want = next((x for x in reversed(ref) if x < start), None)
        got = lst.prev(start)
    if got != want:
        violation('stepping',
                  '{}: {}({!r}) on {} gave {!r}, nearest remaining is {!r}'
                  .format(where, direction, start, ref, got, want))
        return False
    return True


def check_vm_step(ls, direction, start, violation, where, known=((), ())):
    """The VM's own stepping (DNEXT / DNEXTM / DISC / DISCM) from `start`,
    present or since removed, over lights, group names and member lists."""
    from bardolph.vm.vm_discover import VmDiscover
    from bardolph.vm.vm_codes import Operand
    from bardolph.vm.call_stack import CallStack
    from bardolph.vm.machine import Registers

    def nearest(ref, probe):
        if direction == 'next':
            return next((x for x in ref if x > probe), None)
        return next((x for x in reversed(ref) if x < probe), None)

    reg = Registers()
    vd = VmDiscover(CallStack({}), reg)
    reg.disc_forward = direction == 'next'
    cases = [(Operand.LIGHT, None, sorted(ls.get_light_names())),
             (Operand.GROUP, None, sorted(ls.get_group_names())),
             (Operand.LOCATION, None, sorted(ls.get_location_names()))]
    for g in ls.get_group_names():
        cases.append((Operand.GROUP, g, sorted(ls.get_group_lights(g))))
    for g in ls.get_location_names():
        cases.append((Operand.LOCATION, g,
                      sorted(ls.get_location_lights(g))))
    # a group or location that has vanished altogether (all members expired
    # or moved) while an iteration over its members is in progress: nothing
    # remains, the iteration ends
    for g in known[0]:
        if g not in ls.get_group_names():
            cases.append((Operand.GROUP, g, []))
    for g in known[1]:
        if g not in ls.get_location_names():
            cases.append((Operand.LOCATION, g, []))
    for operand, member_of, ref in cases:
        reg.operand = operand
        for probe in {start} | set(ref):
            try:
                if member_of is None:
                    vd.dnext(probe)
                else:
                    vd.dnextm(member_of, probe)
            except Exception as ex:
                violation('vm-stepping-raises',
                          '{}: VM {} step from {!r} over {} raised {}: {}'
                          .format(where, direction, probe,
                                  'members of ' + repr(member_of) +
                                  (' (vanished)' if not ref else '')
                                  if member_of else operand.name,
                                  type(ex).__name__, ex))
                return False
            got = None if reg.result is Operand.NULL else reg.result
            want = nearest(ref, probe)
            if want is None and reg.result is not Operand.NULL:
                # the VM's loops test for Operand.NULL, nothing else ends them
                got = ('not the end marker', reg.result)
            if got != want:
                violation('vm-stepping',
                          '{}: VM {} step from {!r} over {} {} gave {!r}, '
                          'nearest remaining is {!r}'.format(
                              where, direction, probe,
                              'members of ' + member_of if member_of
                              else operand.name, ref, got, want))
                return False
        # start of the iteration
        if member_of is None:
            vd.disc()
        else:
            vd.discm(member_of)
        got = None if reg.result is Operand.NULL else reg.result
        want = (ref[0] if direction == 'next' else ref[-1]) if ref else None
        if want is None and reg.result is not Operand.NULL:
            got = ('not the end marker', reg.result)
        if got != want:
            violation('vm-stepping',
                      '{}: VM iteration start over {} gave {!r}, expected '
                      '{!r}'.format(where, ref, got, want))
            return False
    return True


def check_walk(lst, direction, violation, where):
    ref = sorted(lst)
    cur = lst.first() if direction == 'next' else lst.last()
    seen = []
    for _ in range(len(ref) + 2):
        if cur is None:
            break
        seen.append(cur)
        cur = lst.next(cur) if direction == 'next' else lst.prev(cur)
    want = ref if direction == 'next' else list(reversed(ref))
    if seen != want:
        violation('walk', '{}: {} walk over {} visited {}'.format(
            where, direction, ref, seen))
        return False
    return True


# ---------------------------------------------------------------------------
def execute(scenario, chooser):
    sc = scenario
    cap = env.capture_logs()
    viol = []
    stats = {}

    def violation(sig, msg):
        if not any(v['sig'] == 'C13/' + sig for v in viol):
            viol.append({'sig': 'C13/' + sig, 'msg': msg})

    def probe(name):
        stats[name] = stats.get(name, 0) + 1

    family = sc['family']
    histories = sc['histories'] if family == 'enum' else [sc['steps']]
    info = {'changes': 0}

    def main(sim):
        if family in ('api', 'enum'):
            for steps in histories:
                _run_api(sim, sc, steps, violation, probe, info)
                if viol:
                    info['failing'] = steps
                    break
        else:
            _run_wire(sim, sc, sc['steps'], violation, probe, info,
                      threaded=(family == 'thread'))

    with world.StdoutCapture():
        sim, out = world.run_sim(main, chooser, gran='sync', step_cap=400000)
    res = {'violations': viol, 'digest': sim.digest(),
           'switch_digest': sim.switch_digest(), 'sim_time': sim.now,
           'steps': sim.steps, 'faults': dict(
               dict(sim.net.fired) if sim.net else {},
               failed_discovery=stats.get('failed_discover', 0),
               population_change=sum(1 for h in histories for s in h
                                     if s[0] == 'pop'),
               clock_jump=sum(1 for h in histories for s in h
                              if s[0] == 'advance')),
           'probes': stats, 'deviations': list(sim.deviations),
           'harness_error': None,
           'shape': family + ':' + ','.join(s[0] for s in histories[0]),
           'nontrivial': info['changes'] >= 2}
    import hashlib
    res['digest'] = hashlib.sha256(
        (sim.digest() + str(histories)).encode()).hexdigest()
    if out.status != 'ok':
        if out.status == 'deadlock':
            violation('hang', world.fmt_stacks(out.stacks))
        else:
            res['harness_error'] = 'simulation ended {}: {} {}'.format(
                out.status, out.detail, world.fmt_stacks(out.stacks))
    if info.get('error'):
        res['harness_error'] = info['error']
    res['enumerated_histories'] = len(histories) if family == 'enum' else 0
    stats['histories'] = len(histories)
    res['sample'] = {'family': family, 'gc': sc['gc'],
                     'history': histories[0][:14]}
    return res


def _run_api(sim, sc, steps, violation, probe, info):
    from bardolph.lib import injection, settings as settings_mod
    from bardolph.controller import i_controller, light, light_set
    env.install_threads()
    injection.configure()
    settings_mod.using({'light_gc_time': sc['gc'], 'sleep_time': 0.1,
                        'single_light_discover': True}).configure()

    class SnapApi(i_controller.LightApi):
        def __init__(self):
            self.snapshot = []
            self.fail = False

        def get_lights(self):
            if self.fail:
                raise i_controller.LightException('injected failure')
            return [light.Light(n, g, l) for n, g, l in self.snapshot]

        def set_color_all_lights(self, color, duration):
            pass

        def set_power_all_lights(self, power, duration):
            pass

    api = SnapApi()
    injection.bind_instance(api).to(i_controller.LightApi)
    ls = light_set.LightSet()
    injection.bind_instance(ls).to(i_controller.LightSet)
    model = Model(sc['gc'])
    ever = set()
    gone = set()
    seen_names = [set(), set()]     # groups, locations ever in the directory
    for si, step in enumerate(steps):
        where = 'after step {} {}'.format(si, step)
        kind = step[0]
        before = (model.names(), model.groups())
        if kind == 'pop':
            api.snapshot = [p for p in step[1] if p is not None]
            labels = [p[0] for p in api.snapshot]
            if len(set(labels)) != len(labels):
                probe('shared_label')
            continue
        if kind == 'advance':
            sim.sleep(step[1])
            continue
        if kind in ('discover', 'fail_discover', 'refresh', 'fail_refresh'):
            api.fail = kind.startswith('fail')
            fails = ls.get_failed_discovers()
            oks = ls.get_successful_discovers()
            try:
                if 'discover' in kind:
                    r = ls.discover()
                else:
                    ls.refresh()
                    r = ls.get_failed_discovers() == fails
            except core.SimAbort:
                raise
            except Exception as ex:
                violation('raises', '{}: {}: {}'.format(
                    where, type(ex).__name__, ex))
                return
            api.fail = False
            if kind.startswith('fail'):
                probe('failed_discover')
                if r is not False or ls.get_failed_discovers() != fails + 1:
                    violation('failure-not-reported',
                              '{}: returned {} failures {}->{}'.format(
                                  where, r, fails, ls.get_failed_discovers()))
            else:
                if r is not True or ls.get_successful_discovers() != oks + 1:
                    violation('success-not-reported',
                              '{}: returned {}'.format(where, r))
                old = {n: (v[0], v[1]) for n, v in model.lights.items()}
                model.discover(api.snapshot, sim.now)
                for n, g, l in api.snapshot:
                    if n in old and old[n][0] != g:
                        probe('moved_group')
                    if n in gone:
                        probe('vanish_then_reappear')
                        gone.discard(n)
                    ever.add(n)
            if 'refresh' in kind:
                must, _may = model.expire(sim.now)
                for n in must:
                    del model.lights[n]
                    gone.add(n)
                    probe('expiry_removed_light')
        elif kind == 'step':
            lst = ls.get_light_names()
            if step[2] not in lst and step[2] in ever:
                probe('step_from_removed_name')
            check_step(lst, step[1], step[2], violation, where)
            for g in ls.get_group_names():
                check_step(ls.get_group_lights(g), step[1], step[2],
                           violation, where + ' group ' + g)
            check_step(ls.get_group_names(), step[1], 'G2', violation,
                       where + ' group names')
            check_vm_step(ls, step[1], step[2], violation, where,
                          (sorted(seen_names[0]), sorted(seen_names[1])))
        elif kind == 'walk':
            _walks(ls, step, violation, where)
        seen_names[0].update(ls.get_group_names())
        seen_names[1].update(ls.get_location_names())
        if not check_invariants(ls, model, violation, where):
            return
        after = (model.names(), model.groups())
        if after != before:
            info['changes'] += 1
            if len(after[1]) < len(before[1]):
                probe('group_emptied_and_deleted')
            if set(after[1]) - set(before[1]) and before[1]:
                probe('group_recreated')
            if set(after[0]) != set(before[0]) and \
                    len(after[0]) == len(before[0]):
                probe('rename')
    # a script iterating over the directory visits each light once
    if sc['family'] == 'api':
        _script_iteration(sim, ls, model, violation, probe, None)


def _walks(ls, step, violation, where):
    target = step[2]
    if target == 'list':
        check_walk(ls.get_light_names(), step[1], violation, where)
    elif target == 'groups':
        check_walk(ls.get_group_names(), step[1], violation, where)
    elif target == 'locations':
        check_walk(ls.get_location_names(), step[1], violation, where)
    else:
        for g in ls.get_group_names():
            check_walk(ls.get_group_lights(g), step[1], violation,
                       where + ' group ' + g)
        for g in ls.get_location_names():
            check_walk(ls.get_location_lights(g), step[1], violation,
                       where + ' location ' + g)


def _script_iteration(sim, ls, model, violation, probe, net):
    """`repeat all` and `repeat in group` visit each member exactly once."""
    from bardolph.lib import injection, i_lib, clock, object_list_output
    from bardolph.runtime import runtime_module
    from bardolph.controller.script_job import ScriptJob
    if not model.lights:
        return
    clock.configure()
    out = object_list_output.ObjectListOutput()
    injection.bind_instance(out).to(i_lib.Output)
    runtime_module.configure()
    g = sorted(model.groups())[0]
    text = ('time 0 repeat all as lt begin println lt end '
            'println "--" repeat in group "{}" as gm begin println gm end '
            'println "--" repeat group as gn begin println gn end'
            .format(g))
    job = ScriptJob.from_string(text)
    if job.program is None:
        return
    job.execute()
    got = [str(x) for x in out.get_objects()] \
        if hasattr(out, 'get_objects') else None
    if got is None:
        return
    want = (model.names() + ['--'] + model.groups()[g] + ['--'] +
            sorted(model.groups()))
    got = [x for x in got if x != '\n']
    probe('script_iteration_checked')
    if got != want:
        violation('script-iteration',
                  'a script iterating over the directory printed {}, the '
                  'directory holds {}'.format(got, want))


def _run_wire(sim, sc, steps, violation, probe, info, threaded):
    from bardolph.controller import light_set as light_set_mod
    seen_names = [set(), set()]     # groups, locations ever in the directory
    pop0 = steps[0][1]
    n = sc['n_bulbs']
    specs = []
    for i in range(n):
        p = pop0[i] if i < len(pop0) else None
        specs.append({'label': p[0] if p else 'Spare{}'.format(i),
                      'group': p[1] if p else 'G1',
                      'location': p[2] if p else 'L1', 'product': 27,
                      'latency': 0.002 + 0.001 * i,
                      'present': p is not None})
    settings = dict(sc['settings'], light_gc_time=sc['gc'], sleep_time=0.1,
                    refresh_sleep_time=7, failure_sleep_time=7)
    net, ls, ok = env.build_world(sim, specs, settings=settings,
                                  discover=False)
    model = Model(sc['gc'])
    disc_len = 1.3          # one discovery conversation takes about 1.1 s

    def apply_pop(pop):
        for i, b in enumerate(net.bulbs):
            p = pop[i] if i < len(pop) else None
            b.present = p is not None
            if p is not None:
                b.label, b.group, b.location = p

    def current_seq():
        return [(b.label, b.group, b.location) for b in net.bulbs
                if b.present]

    def do_discover(where, refresh):
        before_ages = {}
        for name in list(ls.get_light_names()):
            before_ages[name] = ls.get_light(name).get_age()
        t1 = sim.now
        try:
            if refresh:
                ls.refresh()
                r = True
            else:
                r = ls.discover()
        except core.SimAbort:
            raise
        except Exception as ex:
            violation('raises', '{}: {}: {}'.format(
                where, type(ex).__name__, ex))
            return False
        if r is not True:
            info['error'] = 'fault-free wire discovery failed'
            return False
        model.discover(current_seq(), sim.now)
        if refresh:
            _expire_wire(ls, model, before_ages, t1, sim.now, disc_len,
                         current_seq(), probe)
        return True

    if threaded:
        apply_pop(pop0)
        ls = env.start_refresh_thread()     # discovers, then starts the thread
        model.discover(current_seq(), sim.now)
        th = None
    for si, step in enumerate(steps):
        where = 'after step {} {}'.format(si, step)
        kind = step[0]
        before = (model.names(), model.groups())
        if kind == 'pop':
            apply_pop(step[1])
            info['changes'] += 1
            info['disc_at_change'] = ls.get_successful_discovers()
            continue
        if kind == 'advance':
            if not threaded:
                sim.sleep(step[1])
                continue
            # let the refresh thread work, then look at a quiescent point
            # after it has completed two discoveries since the last change
            sim.sleep(step[1])
            th = sim.thread('discovery')
            for _ in range(400):
                if th is None or th.state == 'done':
                    violation('refresh-thread-died', '{}: {}'.format(
                        where, None if th is None else th.exc))
                    return
                if th.state == 'blocked' and th.block_kind == 'sleep' and \
                        th.wake_time - sim.now > 0.5 and \
                        ls.get_successful_discovers() >= \
                        info.get('disc_at_change', 0) + 2:
                    break
                sim.sleep(0.2)
            else:
                info['error'] = 'refresh thread made no progress'
                return
            probe('refresh_thread_ran')
            overdue = _sync_model_threaded(ls, model, current_seq(),
                                           sc['gc'], sim, probe)
            if overdue:
                violation('expiry-missed',
                          '{}: lights {} have not answered for longer than '
                          'light_gc_time={} plus two refresh periods but are '
                          'still listed'.format(where, overdue, sc['gc']))
                return
        elif kind in ('discover', 'refresh'):
            if not do_discover(where, kind == 'refresh'):
                return
        elif kind in ('fail_discover', 'fail_refresh'):
            if threaded:
                continue
            # one present bulb answers the broadcast but then never one of
            # its label / group / location queries: the discovery fails and
            # the directory stays what it was
            present = [b for b in net.bulbs if b.present]
            if not present:
                continue
            victim = present[(si * 7) % len(present)]
            req = ('GetLabel', 'GetGroup', 'GetLocation')[si % 3]
            net.plan = [{'kind': 'drop_request', 'device': victim.idx,
                         'request': req, 'occurrence': '*'}]
            net.counts.clear()
            snap = world.snapshot_directory(ls)
            fails = ls.get_failed_discovers()
            try:
                if kind == 'fail_discover':
                    r = ls.discover()
                else:
                    before_ages = {n: ls.get_light(n).get_age()
                                   for n in list(ls.get_light_names())}
                    t1 = sim.now
                    ls.refresh()
                    r = ls.get_failed_discovers() == fails
            except core.SimAbort:
                raise
            except Exception as ex:
                violation('raises', '{}: {}: {}'.format(
                    where, type(ex).__name__, ex))
                return
            finally:
                net.plan = []
            probe('failed_discover')
            if r is not False or ls.get_failed_discovers() != fails + 1:
                violation('failure-not-reported',
                          '{}: bulb {!r} never answered {} but the discovery '
                          'returned {} (failures {}->{})'.format(
                              where, victim.label, req, r, fails,
                              ls.get_failed_discovers()))
                return
            if kind == 'fail_refresh':
                # nobody was renewed: every light is judged by its age
                _expire_wire(ls, model, before_ages, t1, sim.now, disc_len,
                             [], probe)
            elif world.snapshot_directory(ls) != snap:
                violation('failed-discovery-changed-directory',
                          '{}: {} -> {}'.format(
                              where, snap, world.snapshot_directory(ls)))
                return
        elif kind == 'step':
            check_step(ls.get_light_names(), step[1], step[2], violation,
                       where)
            check_vm_step(ls, step[1], step[2], violation, where,
                          (sorted(seen_names[0]), sorted(seen_names[1])))
        elif kind == 'walk':
            _walks(ls, step, violation, where)
        seen_names[0].update(ls.get_group_names())
        seen_names[1].update(ls.get_location_names())
        if not check_invariants(ls, model, violation, where):
            return
        after = (model.names(), model.groups())
        if after != before:
            info['changes'] += 1


def _expire_wire(ls, model, before_ages, t1, t2, slack, seq, probe):
    """Expiry with the narrow relaxation around the limit (wire family)."""
    fresh = {n for n, _g, _l in seq}
    actual = set(ls.get_light_names())
    for name in list(model.lights):
        if name in fresh:
            continue
        age_lo = before_ages.get(name, 0.0)
        age_hi = age_lo + (t2 - t1)
        if age_lo > model.gc:
            del model.lights[name]
            probe('expiry_removed_light')
        elif age_hi > model.gc - 0.001:
            # may go either way: follow the implementation
            if name not in actual:
                del model.lights[name]


def _sync_model_threaded(ls, model, seq, gc, sim, probe):
    """The refresh thread ran an unknown number of refreshes since the last
    look; the model applies one discovery with the current population and
    expires by the ages the lights themselves report."""
    names = set(ls.get_light_names())
    fresh = {n for n, _g, _l in seq}
    overdue = []
    for n, g, l in seq:
        model.lights[n] = [g, l, sim.now]
    for name in list(model.lights):
        if name in fresh:
            continue
        if name not in names:
            # not rediscovered: legitimately expired iff old enough; the age
            # is no longer observable, accept removal of non-present lights
            del model.lights[name]
            probe('expiry_removed_light')
        else:
            age = ls.get_light(name).get_age()
            if age > gc + 2 * 7 + 3:
                overdue.append((name, round(age, 1)))
    return overdue


if __name__ == '__main__':
    from sim import driver
    sys.exit(driver.main(sys.modules[__name__]))
