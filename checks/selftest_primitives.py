"""Trusted-base self-test: the simulated threading primitives must behave like
CPython's on small programs whose outcome does not depend on the schedule.

Each program is written against an abstract `T` namespace (Thread, RLock,
Event, sleep) and run twice: on the real `threading`/`time` modules and under
the simulator (several seeded schedules).  The returned observations must be
equal.  usage: ./check primitives      exit 0 = equal, 1 = a difference.
"""
import sys
import threading
import time
import types

from sim import core, policy

REAL = types.SimpleNamespace(Thread=threading.Thread, RLock=threading.RLock,
                             Event=threading.Event, sleep=time.sleep)
SIM = types.SimpleNamespace(Thread=core.SimThread, RLock=core.SimRLock,
                            Event=core.SimEvent,
                            sleep=lambda s: core.current().sleep(s))


def p_pulse_wakes_waiter(T):
    """A waiter that is blocked at set() returns True although clear()
    follows at once; one that starts waiting afterwards times out."""
    ev = T.Event()
    out = []
    t = T.Thread(target=lambda: out.append(('first', ev.wait(2.0))))
    t.start()
    T.sleep(0.2)
    ev.set()
    ev.clear()
    t.join()
    out.append(('late', ev.wait(0.1)))
    out.append(('is_set', ev.is_set()))
    return out


def p_set_stays(T):
    ev = T.Event()
    ev.set()
    return [ev.wait(0.1), ev.wait(), ev.is_set()]


def p_rlock_reentrant_and_timeout(T):
    lock = T.RLock()
    out = []
    assert lock.acquire()
    assert lock.acquire()           # re-entrant

    def other():
        out.append(('other_timed', lock.acquire(True, 0.2)))
    t = T.Thread(target=other)
    t.start()
    t.join()
    lock.release()

    def other2():
        got = lock.acquire(True, 0.2)       # still held once
        out.append(('other_timed2', got))
    t = T.Thread(target=other2)
    t.start()
    t.join()
    lock.release()

    def other3():
        got = lock.acquire(True, 0.5)
        out.append(('other_free', got))
        if got:
            lock.release()
    t = T.Thread(target=other3)
    t.start()
    t.join()
    try:
        lock.release()
        out.append('release-unowned-ok')
    except RuntimeError:
        out.append('release-unowned-raises')
    return out


def p_lock_handoff(T):
    lock = T.RLock()
    order = []
    lock.acquire()

    def waiter():
        lock.acquire()
        order.append('waiter')
        lock.release()
    t = T.Thread(target=waiter)
    t.start()
    T.sleep(0.1)
    order.append('main')
    lock.release()
    t.join()
    return order


def p_thread_alive_join(T):
    ev = T.Event()
    t = T.Thread(target=lambda: ev.wait(1.0))
    out = [t.is_alive()]
    t.start()
    out.append(t.is_alive())
    ev.set()
    t.join()
    out.append(t.is_alive())
    t2 = T.Thread(target=lambda: T.sleep(0.5))
    t2.start()
    t2.join(0.05)
    out.append(t2.is_alive())
    t2.join()
    out.append(t2.is_alive())
    try:
        t2.start()
        out.append('restart-ok')
    except RuntimeError:
        out.append('restart-raises')
    return out


def p_thread_exception_isolated(T):
    out = []

    def boom():
        raise ValueError('x')
    old = threading.excepthook
    threading.excepthook = lambda a: None
    try:
        t = T.Thread(target=boom)
        t.start()
        t.join()
        out.append(('alive', t.is_alive()))
    finally:
        threading.excepthook = old
    return out


PROGRAMS = [p_pulse_wakes_waiter, p_set_stays, p_rlock_reentrant_and_timeout,
            p_lock_handoff, p_thread_alive_join, p_thread_exception_isolated]


def run_sim(prog, seed, kind):
    out = {}

    def main():
        out['v'] = prog(SIM)
    sim = core.Sim(policy.RandomChooser(seed, kind, 0.3), gran='sync')
    sim.stall_enabled = False
    res = sim.run(main)
    return res.status, out.get('v')


def main(argv):
    rc = 0
    for prog in PROGRAMS:
        real = prog(REAL)
        bad = []
        n = 0
        for kind in ('uniform', 'seq', 'pct'):
            for seed in range(20):
                status, got = run_sim(prog, seed, kind)
                n += 1
                if status != 'ok' or got != real:
                    bad.append((kind, seed, status, got))
        if bad:
            rc = 1
            print('{}: real threading gives {}, simulator differs in {} of '
                  '{} schedules, e.g. {}'.format(prog.__name__, real,
                                                 len(bad), n, bad[0]))
        else:
            print('{}: identical on real threading and {} simulated '
                  'schedules: {}'.format(prog.__name__, n, real))
    return rc


if __name__ == '__main__':
    sys.exit(main(sys.argv[1:]))
