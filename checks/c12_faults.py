"""C12 - device faults and wrong-type targets never abort a script or disturb
other devices; discovery never raises.

Real: retry.py, lifx_lan_light.py, lifx_lan_api.py, light_set.py, machine.py,
vm_discover.py, parser, clock, and lifxlan.  Stub: LAN and bulbs.
Oracle: differential against the fault-free run of the same scenario.
"""
import copy
import random
import sys

from sim import core, env, world
from gen import scripts, populations

PROP = 'C12'
LEVEL = 'fault_enumeration'
RULE = ('two families. script: a generated script (all command kinds x target '
        'kinds, unique-valued commands, sentinel command last) runs on a '
        'population of 3-7 simulated bulbs (plain/multizone/matrix) while a '
        'fault plan makes one or two designated devices not answer '
        '(drop_request, drop_response, late_response, silent for an interval, '
        'per request type and occurrence) and/or statements addressing '
        'unknown names or lights without the capability are inserted; '
        'discovery: any request of the discovery conversation of one device is '
        'lost for a prefix of 1..3 attempts (first or repeated discovery, '
        'refresh, or the real refresh thread), followed by a probe script. '
        'The enumerated tier walks every (request type, occurrence, prefix '
        'length 1..3) site of a fixed corpus; the seeded tier draws scripts '
        'and multi-device plans. A case is non-trivial if at least one fault '
        'fired or one wrong-type/unknown statement executed; distinct = '
        'distinct event-log digest.')
ASSUMPTIONS = [
    'bulb firmware model and UDP model are stubs following the LIFX LAN '
    'protocol as lifxlan speaks it',
    'healthy devices have a fault-free path (no loss toward them)',
    'local interface failures (OSError from sendto/bind) are outside the '
    'property ("a light does not answer") and are not injected',
]
COMPONENTS = {
    'real': ['bardolph/lib/retry.py', 'bardolph/controller/lifx_lan_light.py',
             'bardolph/controller/lifx_lan_api.py',
             'bardolph/controller/light_set.py', 'bardolph/vm/machine.py',
             'bardolph/vm/vm_discover.py', 'bardolph/parser/*',
             'bardolph/lib/clock.py', 'lifxlan (discovery, workflows, '
             'packing, product table)'],
    'stub': ['UDP network', 'bulb firmware', 'clock', 'thread scheduling'],
}
PROBES = ['retry_exhausted', 'retry_recovered', 'unknown_name_stmt',
          'mismatch_stmt', 'discovery_failed', 'discovery_partial',
          'refresh_thread_survived_fault', 'get_failed', 'zone_ack_lost',
          'registers_left_by_failed_get_used', 'expiry_inside_group_command',
          'light_expired_during_script']
WALL_CAP = {'quick': 140, 'thorough': 1500}

MISMATCH_OK = ('mismatch', 'unknown')


def runs_for(tier):
    return 6000 if tier == "quick" else 150000


# ---------------------------------------------------------------------------
# Scenario generation
# ---------------------------------------------------------------------------
def _kind_of(spec):
    return {27: 'plain', 32: 'mz', 57: 'matrix'}[spec.get('product', 27)]


def _offending(rng, pop):
    """A register-neutral statement that addresses an unknown name or a light
    without the capability.  Returns (text, addressed label or None, class)."""
    plain = [b['label'] for b in pop if _kind_of(b) == 'plain']
    mz = [b['label'] for b in pop if _kind_of(b) == 'mz']
    mat = [b['label'] for b in pop if _kind_of(b) == 'matrix']
    forms = []
    for name in ('Nobody', 'Ghost'):
        forms += [('set "{}"'.format(name), None, 'unknown'),
                  ('on "{}"'.format(name), None, 'unknown'),
                  ('off "{}"'.format(name), None, 'unknown'),
                  ('get "{}"'.format(name), None, 'unknown'),
                  ('set "{}" zone 1 3'.format(name), None, 'unknown'),
                  ('set "{}" row 1 column 2'.format(name), None, 'unknown'),
                  ('set "{}" begin stage row 1 end'.format(name), None,
                   'unknown')]
    forms += [('repeat in group "NoGroup" as zz begin set zz end', None,
               'unknown'),
              ('repeat in location "Nowhere" as zz begin on zz end', None,
               'unknown'),
              ('repeat in "Nobody" and location "Nowhere" as zz begin off zz '
               'end', None, 'unknown'),
              ('repeat in group "NoGroup" as zz with zv from 1 to 5 begin '
               'set zz end', None, 'unknown')]
    forms += forms[-4:] * 2      # iterations are rarer in scripts: weigh up
    forms += [('set group "NoGroup"', None, 'unknown'),
              ('on group "NoGroup"', None, 'unknown'),
              ('off location "Nowhere"', None, 'unknown'),
              ('set location "Nowhere"', None, 'unknown'),
              ('set "Nobody" and group "NoGroup"', None, 'unknown')]
    for name in plain + mat:
        forms.append(('set "{}" zone 0 2'.format(name), name, 'mismatch'))
        forms.append(('set "{}" zone 1'.format(name), name, 'mismatch'))
    for name in plain + mz + ['Nobody']:
        addressed = None if name == 'Nobody' else name
        cls = 'unknown' if name == 'Nobody' else 'mismatch'
        hi = rng.choice([7, 8, 10, 31, 63, 100, 254])
        forms.append(('set "{}" row {}'.format(name, hi), addressed, cls))
        forms.append(('set "{}" column 3 {}'.format(name, hi), addressed,
                      cls))
        forms.append(('set "{}" begin stage row {} {} end'.format(
            name, max(hi - 1, 0), hi), addressed, cls))
    for name in plain + mz:
        forms.append(('set "{}" row 1'.format(name), name, 'mismatch'))
        forms.append(('set "{}" column 0 2'.format(name), name, 'mismatch'))
        forms.append(('set "{}" row 1 2 column 3 4'.format(name), name,
                      'mismatch'))
        forms.append(('set "{}" begin stage row 1 stage column 2 end'
                      .format(name), name, 'mismatch'))
    for name in mz + mat:
        forms.append(('get "{}"'.format(name), name, 'mismatch'))
    return rng.choice(forms)


def _fault_plan(rng, pop, faulty):
    plan = []
    kinds = ['drop_request', 'drop_response', 'late_response']
    for f in faulty:
        if rng.random() < 0.25:
            # slow or duplicated answers are not failures: nothing may change
            plan.append({'kind': rng.choice(['delay', 'duplicate']),
                         'device': f, 'request': '*',
                         'occurrence': sorted(rng.sample(range(1, 15), 5)),
                         'arg': rng.choice([0.05, 0.4, 0.8])})
        style = rng.choice(['silent_all', 'prefix', 'prefix', 'interval',
                            'scatter'])
        if style == 'silent_all':
            plan.append({'kind': rng.choice(kinds), 'device': f,
                         'request': '*', 'occurrence': '*'})
        elif style == 'interval':
            plan.append({'kind': 'silent', 'device': f, 'from': 0.0,
                         'to': 1e9})
        elif style == 'prefix':
            req = rng.choice(['LightGet', 'MultiZoneSetColorZones', '*'])
            o = rng.randint(1, 3)
            k = rng.randint(1, 3)
            plan.append({'kind': rng.choice(kinds), 'device': f,
                         'request': req,
                         'occurrence': list(range(o, o + k))})
        else:
            occ = sorted(rng.sample(range(1, 12), rng.randint(1, 6)))
            plan.append({'kind': rng.choice(kinds), 'device': f,
                         'request': '*', 'occurrence': occ})
    return plan


def _sentinel_stmt(pop, sentinel):
    return 'kelvin 9999 set "{}"'.format(pop[sentinel]['label'])


def gen_expiry(rng):
    """A bulb stops answering while a script keeps addressing its group and
    location; the refresh thread expires it in mid-script.  The expiry is
    held back until the script thread is inside a group/location command
    (a legal schedule: the refresh thread is merely slow to be scheduled)."""
    from sim import policy
    pop = populations.gen_population(rng, 3, 4, kinds=('plain',),
                                     ensure=('plain', 'plain', 'plain'))
    for b in pop:
        b['group'] = rng.choice(['Pole', 'Window'])
        b['location'] = rng.choice(['Home', 'Office'])
    n = len(pop)
    idx = list(range(n))
    rng.shuffle(idx)
    sentinel, f, slow = idx[0], idx[1], idx[2]
    pop[slow]['latency'] = 0.08
    if rng.random() < 0.5:
        # the expiring bulb shares its group with another one
        pop[slow]['group'] = pop[f]['group']
    if rng.random() < 0.5:
        pop[sentinel]['location'] = pop[f]['location']
    g, loc = pop[f]['group'], pop[f]['location']
    cmds = [rng.choice(['kelvin 2501 set group "{}"'.format(g),
                        'duration 1 on group "{}"'.format(g),
                        'duration 2 off group "{}"'.format(g),
                        'kelvin 2502 set location "{}"'.format(loc),
                        'duration 3 on location "{}"'.format(loc),
                        'kelvin 2503 set "{}" and group "{}"'.format(
                            pop[sentinel]['label'], g)])
            for _ in range(rng.randint(1, 3))]
    pol = policy.draw_policy(rng, est_len=400, stalls=False)
    if pol['gran'] == 'sync':
        pol['gran'] = rng.choice(['line', 'opcode'])
    return {'family': 'expiry', 'population': pop, 'faulty': [f],
            'sentinel': sentinel, 'slow': slow, 'policy': pol,
            'settings': {'sleep_time': 0.05},
            'gc': rng.choice([4, 6]), 'silent_from': rng.choice([0.5, 2.0]),
            'cmds': cmds,
            'arrival': rng.randint(1, 24 if pol['gran'] == 'line' else 200),
            'force': rng.choice([40, 200, 1000]),
            'plan': []}


def gen(rng, tier, index, family=None, faulty_kind=None, mode=None):
    from sim import policy
    if family is None and rng.random() < 0.05:
        return gen_expiry(rng)
    family = family or rng.choice(['script', 'script', 'script', 'discovery'])
    pop = populations.gen_population(rng, 3, 7,
                                     ensure=('plain', 'plain', 'mz', 'matrix')
                                     [:4 if faulty_kind else
                                      rng.randint(2, 4)])
    n = len(pop)
    if rng.random() < 0.2:
        # a bulb in a group and/or a location of its own, named after it
        b = rng.choice(pop)
        if rng.random() < 0.7:
            b['location'] = b['label']
        if rng.random() < 0.5:
            b['group'] = b['label']
    idx = list(range(n))
    rng.shuffle(idx)
    plain_idx = [i for i in idx if _kind_of(pop[i]) == 'plain']
    sentinel = plain_idx[0]
    cands = [i for i in idx if i != sentinel]
    faulty = sorted(cands[:rng.choice([0, 1, 1, 1, 2])])
    if faulty_kind:
        faulty = [i for i in cands if _kind_of(pop[i]) == faulty_kind][:1]
    sc = {'family': family, 'population': pop, 'faulty': faulty,
          'sentinel': sentinel,
          'policy': policy.draw_policy(rng, est_len=200, stalls=False),
          'settings': {'sleep_time': rng.choice([0.01, 0.1, 0.5]),
                       'default_num_lights': rng.choice([None, None, n])}}
    sc['policy']['gran'] = 'sync'
    if family == 'script':
        # "loose" scripts do not re-assign the colour registers after a
        # `get`: whatever an abandoned read left behind is used by the
        # commands that follow (any unit mode).  Their datagrams are compared
        # with the fault-free run by device and message type only.
        loose = bool(faulty) and rng.random() < 0.3
        sc['loose'] = loose
        text, meta = scripts.gen_script(rng, pop, {
            'reassign_after_get': not loose, 'max_statements': 12,
            'units_raw': 0.35 if loose else 0.1})
        base = list(meta['parts'])
        if loose:
            # make sure the interesting sequence occurs: a read from a bulb
            # of the faulty set, then commands that use the registers it
            # left - to one light, to a group and to all
            fp = [pop[i]['label'] for i in faulty
                  if _kind_of(pop[i]) == 'plain']
            if fp:
                k = rng.randint(1, len(base))
                base[k:k] = ['get "{}"'.format(rng.choice(fp)),
                             rng.choice(['set all', 'on all',
                                         'set "{}"'.format(
                                             pop[sentinel]['label']),
                                         'set group "{}"'.format(
                                             pop[sentinel]['group'])]),
                             'set all']
        inject = []
        if not faulty or rng.random() < 0.5:
            for _ in range(rng.randint(1, 3)):
                stmt, addressed, cls = _offending(rng, pop)
                inject.append([rng.randint(1, len(base)), stmt, addressed,
                               cls])
        sc['base'] = base
        sc['inject'] = inject
        sc['plan'] = _fault_plan(rng, pop, faulty)
        text_all = ' '.join(base)
        if ' all' not in text_all and not loose and rng.random() < 0.3:
            # the network layer refuses 1-3 consecutive requests (socket
            # cannot be opened).  Only for scripts without broadcast
            # commands: `set all` has no retry wrapper (DESIGN.md 11.3).
            k0 = rng.randint(1, 12)
            sc['plan'] = [{'kind': 'bind_error',
                           'occurrence': list(range(k0, k0 + rng.randint(
                               1, 3)))}]
            sc['faulty'] = []
            sc['inject'] = []
    else:
        sc['mode'] = mode or rng.choice(['first', 'second', 'second',
                                         'refresh', 'thread'])
        if not faulty:
            faulty = sorted(cands[:1])
            sc['faulty'] = faulty
        f = faulty[0]
        kind = _kind_of(pop[f])
        reqs = ['GetService', 'GetVersion', 'GetLabel', 'GetGroup',
                'GetLocation']
        if kind == 'mz':
            reqs += ['MultiZoneGetColorZones'] * 3
        if kind == 'matrix':
            reqs += ['GetDeviceChain'] * 3
        if sc['mode'] in ('second', 'refresh') and rng.random() < 0.5:
            healthy = [i for i in range(n) if i not in faulty]
            sc['move'] = [rng.choice(healthy),
                          rng.choice(populations.GROUPS + ['Attic']),
                          rng.choice(populations.LOCATIONS + ['Shed'])]
        if sc['mode'] == 'thread':
            t0 = rng.choice([0.0, 3.0, 6.0])
            sc['plan'] = [{'kind': 'silent', 'device': f, 'from': t0,
                           'to': t0 + rng.choice([4.0, 9.0, 15.0])}]
        else:
            req = rng.choice(reqs)
            o = rng.randint(1, 3)
            k = rng.randint(1, 3)
            occ = list(range(o, o + k))
            if rng.random() < 0.25:
                occ = '*'       # this kind of request is never answered
            sc['plan'] = [{'kind': rng.choice(['drop_request',
                                               'drop_response',
                                               'late_response']),
                           'device': f, 'request': req,
                           'occurrence': occ}]
    return sc


def shrink(sc):
    if sc['family'] == 'expiry':
        for i in range(len(sc['cmds'])):
            if len(sc['cmds']) > 1:
                c = copy.deepcopy(sc)
                del c['cmds'][i]
                yield c
        return
    if sc['family'] == 'script':
        for i in range(len(sc['inject'])):
            c = copy.deepcopy(sc)
            del c['inject'][i]
            yield c
        for i in range(len(sc['base']) - 1, 0, -1):
            c = copy.deepcopy(sc)
            del c['base'][i]
            c['inject'] = [[min(p, len(c['base'])), s, a, k]
                           for p, s, a, k in c['inject']]
            yield c
    for i in range(len(sc['plan'])):
        c = copy.deepcopy(sc)
        del c['plan'][i]
        yield c
    for i, r in enumerate(sc['plan']):
        if isinstance(r.get('occurrence'), list) and len(r['occurrence']) > 1:
            c = copy.deepcopy(sc)
            c['plan'][i]['occurrence'] = r['occurrence'][:-1]
            yield c
    # drop a bulb that is neither sentinel nor faulty
    for i in range(len(sc['population']) - 1, -1, -1):
        if i == sc['sentinel'] or i in sc['faulty']:
            continue
        if len(sc['population']) <= 2:
            break
        label = sc['population'][i]['label']
        text = ' '.join(sc.get('base', []) +
                        [x[1] for x in sc.get('inject', [])])
        if '"{}"'.format(label) in text:
            continue
        c = copy.deepcopy(sc)
        del c['population'][i]
        c['sentinel'] -= 1 if i < sc['sentinel'] else 0
        c['faulty'] = [f - 1 if i < f else f for f in sc['faulty']]
        for r in c['plan']:
            if isinstance(r.get('device'), int) and r['device'] > i:
                r['device'] -= 1
        yield c


# ---------------------------------------------------------------------------
# Execution
# ---------------------------------------------------------------------------
def probe_script(pop, sentinel, acked=True):
    parts = ['time 0', 'kelvin 2001 set all', 'duration 1 on all']
    tag = 2100
    for b in sorted(pop, key=lambda s: s['label']):
        tag += 1
        parts.append('kelvin {} set "{}"'.format(tag, b['label']))
        tag += 1
        parts.append('duration {} off "{}"'.format(tag - 2100, b['label']))
        if _kind_of(b) == 'mz' and acked:
            tag += 1
            parts.append('kelvin {} set "{}" zone 1 2'.format(tag, b['label']))
        if _kind_of(b) == 'matrix':
            tag += 1
            parts.append('kelvin {} set "{}" row 1 column 1 2'.format(
                tag, b['label']))
            tag += 1
            parts.append('kelvin {} set "{}" begin stage row 0 stage column 3'
                         ' end'.format(tag, b['label']))
    for g in sorted({b['group'] for b in pop}):
        tag += 1
        parts.append('kelvin {} set group "{}"'.format(tag, g))
    for g in sorted({b['location'] for b in pop}):
        tag += 1
        parts.append('duration {} on location "{}"'.format(tag - 2100, g))
    parts.append(_sentinel_stmt(pop, sentinel))
    return '\n'.join(parts)


def _script_text(sc, with_inject):
    parts = list(sc['base'])
    if with_inject:
        for pos, stmt, _a, _k in sorted(sc['inject'], key=lambda x: -x[0]):
            parts.insert(pos, stmt)
    parts.append(_sentinel_stmt(sc['population'], sc['sentinel']))
    return '\n'.join(parts)


def _simulate(sc, chooser, faults, with_inject):
    """One simulated execution.  Returns an observation dict."""
    from bardolph.controller.script_job import ScriptJob
    from bardolph.controller import light_set as light_set_mod
    cap = env.capture_logs()
    obs = {'escaped': None, 'disc': [], 'dir_changed_on_failure': None,
           'thread_died': None}
    pop = sc['population']
    plan = sc['plan'] if faults else []

    def run_script(sim, net, text):
        net.counts.clear()
        net.binds = 0
        obs['mark'] = sim.evno
        job = ScriptJob.from_string(text)
        obs['compiled'] = job.program is not None
        obs['n_warn_before'] = sum(1 for lv, _m in cap.records
                                   if lv in ('WARNING', 'ERROR'))
        try:
            job.execute()
        except core.SimAbort:
            raise
        except Exception as ex:
            obs['escaped'] = '{}: {}'.format(type(ex).__name__, ex)

    def main(sim):
        family = sc['family']
        if family == 'script':
            net, ls, ok = env.build_world(sim, pop, plan=[],
                                          settings=sc['settings'])
            obs['disc'].append(ok)
            net.plan = list(plan)
            run_script(sim, net, _script_text(sc, with_inject))
        else:
            mode = sc['mode']
            first_plan = plan if mode == 'first' else []
            net, ls = None, None
            try:
                net, ls, ok = env.build_world(sim, pop, plan=first_plan,
                                              settings=dict(
                                                  sc['settings'],
                                                  refresh_sleep_time=5,
                                                  failure_sleep_time=2))
                obs['disc'].append(ok)
            except core.SimAbort:
                raise
            except Exception as ex:
                obs['escaped'] = 'discover: {}: {}'.format(
                    type(ex).__name__, ex)
                return
            if mode in ('second', 'refresh'):
                before = world.snapshot_directory(ls)
                fails = ls.get_failed_discovers()
                mv = sc.get('move')
                if mv is not None:
                    # a healthy bulb changed group/location meanwhile: a
                    # discovery that fails must not record even that
                    b = net.bulbs[mv[0]]
                    b.group, b.location = mv[1], mv[2]
                net.plan = list(plan)
                net.counts.clear()
                try:
                    if mode == 'second':
                        r = ls.discover()
                    else:
                        ls.refresh()
                        r = ls.get_failed_discovers() == fails
                except core.SimAbort:
                    raise
                except Exception as ex:
                    obs['escaped'] = '{}: {}: {}'.format(
                        mode, type(ex).__name__, ex)
                    return
                obs['disc'].append(r)
                if r:
                    # a discovery that reports success under faults: what it
                    # recorded must be what bulbs really reported
                    try:
                        after = world.snapshot_directory(ls)
                    except core.SimAbort:
                        raise
                    except Exception as ex:
                        obs['bad_success'] = (
                            'the directory cannot be listed: {}: {}'.format(
                                type(ex).__name__, ex))
                    else:
                        real_g = {b.group for b in net.bulbs} | \
                            {p.get('group') for p in pop}
                        real_l = {b.location for b in net.bulbs} | \
                            {p.get('location') for p in pop}
                        odd = [g for g in after['groups']
                               if g not in real_g] + \
                            [g for g in after['locations']
                             if g not in real_l]
                        if odd:
                            obs['bad_success'] = (
                                'it lists groups/locations {!r} that no bulb '
                                'ever reported (groups {}, locations {})'
                                .format(odd, sorted(after['groups']),
                                        sorted(after['locations'])))
                        for n in after['names']:
                            ng = [g for g, m in after['groups'].items()
                                  if n in m]
                            nl = [g for g, m in after['locations'].items()
                                  if n in m]
                            if len(ng) != 1 or len(nl) != 1:
                                obs['bad_success'] = (
                                    'light {!r} is listed under groups {} and '
                                    'locations {}'.format(n, ng, nl))
                if not r:
                    after = world.snapshot_directory(ls)
                    if after != before:
                        obs['dir_changed_on_failure'] = (before, after)
                    if ls.get_failed_discovers() != fails + 1:
                        obs['dir_changed_on_failure'] = (
                            'failure count', fails,
                            ls.get_failed_discovers())
            elif mode == 'thread':
                net.plan = list(plan)
                ls = env.start_refresh_thread()
                sim.sleep(40.0)
                th = sim.thread('discovery')
                if th is None or th.state == 'done':
                    obs['thread_died'] = (
                        'refresh thread ended: {}'.format(
                            None if th is None or th.exc is None else
                            '{}: {}'.format(type(th.exc).__name__, th.exc)))
                    return
                sim.count('refresh_thread_survived_fault')
                # run the probe at a quiescent point of the refresh thread
                for _ in range(200):
                    if (th.state == 'blocked' and th.block_kind == 'sleep'
                            and th.wake_time - sim.now > 1.0):
                        break
                    sim.sleep(0.25)
            net.plan = []
            obs['known'] = list(ls.get_light_names())
            run_script(sim, net, probe_script(pop, sc['sentinel'],
                                              acked=(mode != 'thread')))
        obs['net'] = net

    with world.StdoutCapture() as so:
        sim, out = world.run_sim(main, chooser, gran='sync', step_cap=300000)
    obs['stdout'] = so.text()
    obs['sim'] = sim
    obs['out'] = out
    obs['logs'] = cap.records
    return obs


_SCOPED = []


def _scope_group_commands():
    """Line and bytecode pre-emption inside the VM's group/location commands
    and the directory look-ups and expiry they race with."""
    if _SCOPED:
        return
    from sim import tracing
    from bardolph.vm import machine
    from bardolph.controller import light_set
    vm = tuple(q for f, q, _o in _group_functions() if f == 'machine.py')
    tracing.scope_module(machine, only=vm + (
        'Machine.run', 'Machine.stop', 'Machine._wait', 'Machine.reset'),
        instructions=vm + ('Machine.stop', 'Machine.reset'))
    # the whole directory class: look-ups, re-discovery and expiry
    ls = tuple('LightSet.' + nm for nm, obj in vars(
        light_set.LightSet).items() if callable(obj)
        or isinstance(obj, staticmethod))
    tracing.scope_module(light_set, only=ls + (
        '_light_refresh', '_start_light_refresh'), instructions=ls)
    _SCOPED.append(True)


def _execute_expiry(sc, chooser):
    from bardolph.controller.script_job import ScriptJob
    from bardolph.controller import light_set as ls_mod
    import inspect
    cap = env.capture_logs()
    viol = []
    st = {'n': 0}
    pop = sc['population']
    f = sc['faulty'][0]
    text = 'time 0 repeat 400 begin get "{}" hue 5 saturation 5 ' \
        'brightness 5 {} end\n{}\nprintln "END-OF-SCRIPT"'.format(
            pop[sc['slow']]['label'], ' '.join(sc['cmds']),
            _sentinel_stmt(pop, sc['sentinel']))
    # where the refresh thread is held: inside the public LightSet.refresh(),
    # once its re-discovery is done and before the expiry pass
    src, first = inspect.getsourcelines(ls_mod.LightSet.refresh)
    after = [k for k, ln in enumerate(src) if 'discover' in ln]
    k0 = (after[0] + 1) if after else 2
    gc_lines = set(range(first + k0, first + len(src)))

    def main(sim):
        net, ls, ok = env.build_world(
            sim, pop, plan=[], settings=dict(
                sc['settings'], light_gc_time=sc['gc'], refresh_sleep_time=3,
                failure_sleep_time=3))
        st['net'] = net
        net.plan = [{'kind': 'silent', 'device': f,
                     'from': sim.now + sc['silent_from'], 'to': 1e12}]
        ls = env.start_refresh_thread()
        st['mark'] = sim.evno
        job = ScriptJob.from_string(text)
        st['compiled'] = job.program is not None

        def body():
            try:
                job.execute()
            except core.SimAbort:
                raise
            except Exception as ex:
                st['escaped'] = '{}: {}'.format(type(ex).__name__, ex)
        th = sim.spawn(body, 'script')

        def ls_now():
            from bardolph.lib import injection
            from bardolph.controller import i_controller
            return injection.provide(i_controller.LightSet)

        def _due(lset):
            # will this expiry pass remove the silent bulb?
            lt = lset.get_light(pop[f]['label'])
            return lt is not None and lt.get_age() > sc['gc']

        def watcher(s, cur):
            if st.get('released'):
                return
            gc_th = s.thread('discovery')
            if gc_th is None or cur is None:
                return
            tag = cur.tag or ()
            if cur is gc_th:
                if not st.get('held') and tag[:1] == ('light_set.py',) \
                        and tag[1] in gc_lines and _due(ls_now()):
                    st['held'] = True
                    s.parked[gc_th.name] = lambda: (
                        not st.get('released') and th.state != 'done')
            elif cur is th and st.get('held'):
                if tag[:1] in (('machine.py',), ('light_set.py',)) and \
                        len(tag) > 1 and isinstance(tag[1], (int, str)) and \
                        _in_group_command(tag):
                    st['n'] += 1
                    if st['n'] >= sc['arrival']:
                        st['released'] = True
                        s.count('expiry_inside_group_command')
                        s.force(gc_th.name, sc['force'])
        sim.watch.append(watcher)
        sim.join(th)
        st['known_after'] = list(ls.get_light_names())

    _scope_group_commands()
    with world.StdoutCapture() as so:
        sim, out = world.run_sim(main, chooser, gran=sc['policy']['gran'],
                                 step_cap=900000, fairness=200)
    # the script's last statement prints a marker: reaching it does not
    # depend on the wording of any log entry
    reached_end = 'END-OF-SCRIPT' in so.text()
    res = {'violations': viol, 'digest': sim.digest(),
           'switch_digest': sim.switch_digest(), 'sim_time': sim.now,
           'steps': sim.steps, 'faults': {}, 'probes': dict(sim.stats),
           'deviations': list(sim.deviations), 'harness_error': None,
           'shape': 'expiry:' + sc['policy']['gran']}
    if out.status != 'ok':
        res['harness_error'] = 'expiry run ended {}: {} {}'.format(
            out.status, out.detail, world.fmt_stacks(out.stacks))
        return res
    if not st.get('compiled'):
        res['harness_error'] = 'script rejected: ' + text
        return res
    res['faults'] = dict(st['net'].fired)
    res['faults']['thread_preemption'] = sim.switches
    label = pop[f]['label']
    if label not in st['known_after']:
        res['probes']['light_expired_during_script'] = 1
    res['nontrivial'] = bool(st.get('released'))
    stopped = [m for lv, m in cap.records if 'Machine stopped due to' in m]
    # (the last command itself may find its light expired as well: a
    # discovery that fails because of the one bulb renews nobody)
    if st.get('escaped') or stopped or not reached_end:
        viol.append({'sig': 'C12/script-stopped/expiry-during-command',
                     'msg': 'bulb {!r} stopped answering and was expired by '
                            'the refresh thread while the script was inside '
                            'a group/location command; the script did not '
                            'reach its last command: {}'.format(
                                label, st.get('escaped') or
                                (stopped[0] if stopped else
                                 'its last statement never ran'))})
    return res


def _in_group_command(tag):
    # bytecode tags carry the function name, line tags the line number
    lines, names = _group_lines()
    if len(tag) >= 3 and isinstance(tag[1], str):
        return tag[1] in names
    return (tag[0], tag[1]) in lines


_GROUP_LINES = {}


def _group_functions():
    """The VM's group/location command handlers (found by what they are
    called, whatever that is exactly) and the directory's public look-ups."""
    import re
    from bardolph.vm import machine
    from bardolph.controller import light_set
    out = []
    for nm, obj in vars(machine.Machine).items():
        if callable(obj) and re.search('group|location|multiple', nm):
            out.append(('machine.py', 'Machine.' + nm, obj))
    for nm in ('get_light', 'get_group_lights', 'get_location_lights'):
        obj = vars(light_set.LightSet).get(nm)
        if obj is not None:
            out.append(('light_set.py', 'LightSet.' + nm, obj))
    return out


def _group_lines():
    if not _GROUP_LINES:
        import inspect
        lines, names = set(), set()
        for fname, qual, obj in _group_functions():
            fn = inspect.unwrap(obj)
            try:
                src, first = inspect.getsourcelines(fn)
            except (OSError, TypeError):
                continue
            lines.update((fname, k) for k in range(first, first + len(src)))
            names.add(fn.__name__)
        _GROUP_LINES['v'] = (lines, names)
    return _GROUP_LINES['v']


def execute(scenario, chooser):
    sc = scenario
    # the same code is pre-emptible in every run of every family: a run's
    # event log must not depend on what the process ran before
    env.install_threads()
    _scope_group_commands()
    if sc['family'] == 'expiry':
        return _execute_expiry(sc, chooser)
    viol = []

    def violation(sig, msg):
        if not any(v['sig'] == 'C12/' + sig for v in viol):
            viol.append({'sig': 'C12/' + sig, 'msg': msg})

    from sim import policy
    ref = _simulate(sc, policy.ReplayChooser([]), faults=False,
                    with_inject=False)
    run = _simulate(sc, chooser, faults=True, with_inject=True)
    sim = run['sim']
    res = {'violations': viol, 'digest': sim.digest(),
           'switch_digest': sim.switch_digest(),
           'sim_time': sim.now + ref['sim'].now,
           'steps': sim.steps + ref['sim'].steps, 'faults': {},
           'probes': {}, 'deviations': list(sim.deviations),
           'harness_error': None,
           'shape': '{}:{}:{}'.format(
               sc['family'], sc.get('mode', ''),
               ','.join(sorted({r['kind'] + ':' + str(r.get('request', ''))
                                for r in sc['plan']})))}
    for o, nm in ((ref, 'reference'), (run, 'faulty')):
        if o['out'].status != 'ok':
            if nm == 'reference':
                res['harness_error'] = 'reference run ended {}: {} {}'.format(
                    o['out'].status, o['out'].detail,
                    world.fmt_stacks(o['out'].stacks))
                return res
            violation('hang', 'run with faults ended {}: {} {}'.format(
                o['out'].status, o['out'].detail,
                world.fmt_stacks(o['out'].stacks)))
            return res
    if ref['escaped'] or 'net' not in ref or not ref.get('compiled'):
        res['harness_error'] = 'reference run failed: {} compiled={}'.format(
            ref['escaped'], ref.get('compiled'))
        return res
    net = run.get('net')
    probes = dict(sim.stats)
    res['probes'] = probes
    if net is not None:
        res['faults'] = dict(net.fired)
    elif sim.net is not None:
        res['faults'] = dict(sim.net.fired)
    res['nontrivial'] = bool(res['faults']) or bool(sc.get('inject'))

    # -- nothing escapes ----------------------------------------------------
    if run['escaped']:
        violation('exception-escapes/' + _slug(run['escaped']),
                  'exception escaped: {} ({})'.format(run['escaped'],
                                                      _describe(sc)))
        return res
    if run['thread_died']:
        violation('refresh-thread-died', run['thread_died'])
        return res
    if run.get('bad_success'):
        violation('successful-discovery-recorded-garbage',
                  'a discovery that reported success although requests went '
                  'unanswered left a wrong directory: {} ({})'.format(
                      run['bad_success'], _describe(sc)))
    if run['dir_changed_on_failure'] is not None:
        violation('failed-discovery-changed-directory',
                  'a discovery that reported failure changed the directory '
                  'or did not count the failure: {}'.format(
                      run['dir_changed_on_failure']))
    if sc['family'] == 'discovery':
        if any(r is False for r in run['disc']):
            probes['discovery_failed'] = 1
        elif res['faults']:
            probes['discovery_partial'] = 1

    # -- the script ran to its end ------------------------------------------
    stopped = [m for lv, m in run['logs'] if 'Machine stopped due to' in m]
    ref_stopped = [m for lv, m in ref['logs'] if 'Machine stopped due to' in m]
    if ref_stopped:
        res['harness_error'] = 'reference script aborted: ' + ref_stopped[0]
        return res
    if stopped:
        violation('script-aborted/' + _slug(
            stopped[0].replace('Machine stopped due to', '')),
            'script aborted: {} (statements: {})'.format(
                stopped[0], _describe(sc)))
        return res
    if not run.get('compiled'):
        res['harness_error'] = 'script with injected statements rejected'
        return res
    mark_r, mark_f = ref['mark'], run['mark']
    from sim.bulbs import SCRIPT_TYPES
    rec_ref = world.wire_records(ref['net'], mark_r, SCRIPT_TYPES)
    rec_run = world.wire_records(net, mark_f, SCRIPT_TYPES)
    sent = sc['sentinel']
    tail = [r for r in rec_run[sent] if r[0] == 'LightSetColor']
    if sc.get('move') is not None and any(r is False for r in run['disc']):
        # the directory legitimately still shows the old memberships
        res['sample'] = {'family': 'discovery', 'mode': sc.get('mode'),
                         'plan': sc['plan'], 'move': sc['move']}
        return res
    known = run.get('known')
    comparable = None
    if known is not None and set(known) != set(ref.get('known', [])):
        # a discovery that did not complete: only the lights the directory
        # knows can be addressed by name
        probes['discovery_left_lights_unknown'] = 1
        comparable = {i for i, b in enumerate(sc['population'])
                      if b['label'] in known}
    if comparable is not None and sent not in comparable:
        pass
    elif any(r['kind'] == 'bind_error' for r in sc['plan']):
        pass        # the refused request may be the sentinel itself; the
        #             datagram count below catches an aborted script
    elif not tail or dict(tail[-1][1])['color'][3] != 9999:
        violation('script-aborted', 'the final (sentinel) command never '
                  'reached {}: {}'.format(sc['population'][sent]['label'],
                                          _describe(sc)))
        return res

    # -- healthy devices receive exactly what they would have ----------------
    excluded = set(sc['faulty'])
    labels = {b['label']: i for i, b in enumerate(sc['population'])}
    for _p, _s, addressed, cls in sc.get('inject', []):
        probes['unknown_name_stmt' if cls == 'unknown' else
               'mismatch_stmt'] = 1
        if addressed is not None:
            excluded.add(labels[addressed])
    bind_plan = [r for r in sc['plan'] if r['kind'] == 'bind_error']
    if bind_plan:
        # fewer than 3 refusals in a row: the retry succeeds and nothing may
        # differ; exactly 3: one request is abandoned, so exactly one
        # datagram may be missing somewhere - and nothing else
        allowed = 1 if len(bind_plan[0]['occurrence']) >= 3 else 0
        missing = 0
        for i, b in enumerate(sc['population']):
            a, r_ = list(rec_run[i]), list(rec_ref[i])
            if a == r_:
                continue
            # is `a` equal to r_ with one element removed?
            ok = len(a) == len(r_) - 1 and any(
                r_[:k] + r_[k + 1:] == a for k in range(len(r_)))
            if ok:
                missing += 1
            else:
                missing += 99
        if missing > allowed:
            violation('request-failure-disturbed-others',
                      'with {} consecutive refused requests the devices '
                      'received {} instead of {} datagrams; a refused request '
                      'may cost at most its own command'.format(
                          len(bind_plan[0]['occurrence']),
                          [len(rec_run[i]) for i in range(len(
                              sc['population']))],
                          [len(rec_ref[i]) for i in range(len(
                              sc['population']))]))
        if net.fired.get('bind_error'):
            probes['request_refused_by_network_layer'] = 1
    for i, b in enumerate(sc['population']):
        if bind_plan:
            break
        if i in excluded or (comparable is not None and i not in comparable):
            continue
        if sc.get('loose'):
            probes['registers_left_by_failed_get_used'] = 1
            rec_ref[i] = [t for t, _p in rec_ref[i]]
            rec_run[i] = [t for t, _p in rec_run[i]]
        if rec_ref[i] != rec_run[i]:
            violation('healthy-device-disturbed',
                      'device {} ({}) received {} datagrams, fault-free run '
                      '{}; first difference at #{}: {} vs {}; {}'.format(
                          i, b['label'], len(rec_run[i]), len(rec_ref[i]),
                          *_first_diff(rec_run[i], rec_ref[i]),
                          _describe(sc)))
            break

    # -- bounded attempts ---------------------------------------------------
    for f in sc['faulty']:
        for typ in ('LightGet', 'MultiZoneSetColorZones', 'LightGetPower'):
            per_ref = _count_payload(ref['net'], f, typ, mark_r)
            per_run = _count_wire(net, f, typ, mark_f)
            n_ref = sum(per_ref.values())
            n_run = per_run
            if n_run > 3 * n_ref:
                violation('too-many-attempts',
                          '{} {} datagrams to faulty device {} for {} logical '
                          'requests (more than 3 attempts each)'.format(
                              n_run, typ, f, n_ref))
            if n_run > n_ref:
                probes['retry_recovered'] = 1
            if typ == 'LightGet' and n_run > n_ref:
                probes['get_failed'] = 1
            if typ == 'MultiZoneSetColorZones' and n_run > n_ref:
                probes['zone_ack_lost'] = 1
    # no request is attempted more than three times in a row without an
    # answer (per device and identical request; a script may of course issue
    # the same request several times back to back - the fault-free run says
    # how often)
    for f in sc['faulty']:
        worst = _failed_runs(net, f, mark_f if sc['family'] == 'script'
                             else -1)
        ref_runs = _ref_runs(ref['net'], f, mark_r
                             if sc['family'] == 'script' else -1)
        for key, n in worst.items():
            if key[0] == 'GetService':
                continue      # one broadcast per discovery, never retried
            allowed = 3 * max(ref_runs.get(key, 1), 1)
            if sc.get('loose'):
                # payloads differ from the fault-free run: bound by type
                allowed = 3 * max(sum(v for k2, v in ref_runs.items()
                                      if k2[0] == key[0]), 1)
            if n > allowed:
                violation('too-many-attempts',
                          'device {} ({}): {} unanswered attempts of one and '
                          'the same {} request; the fault-free run sends '
                          'that request {} time(s), so at most {} '
                          'attempts are allowed'.format(
                              f, sc['population'][f]['label'], n, key[0],
                              ref_runs.get(key, 1), allowed))
    giving_up = sum(1 for lv, m in run['logs'] if 'Giving up' in m)
    if giving_up:
        probes['retry_exhausted'] = 1
    # abandoned requests leave a log entry (device that never answers)
    if sc['family'] == 'script':
        softened = {r.get('device') for r in sc['plan']
                    if r['kind'] in ('delay', 'duplicate')}
        never = [r['device'] for r in sc['plan']
                 if 'device' in r and r['device'] not in softened and (
                     (r['kind'] == 'silent' and r.get('to', 0) >= 1e9)
                     or (r.get('request') == '*'
                         and r.get('occurrence') == '*'))]
        abandoned = 0
        for f in never:
            for typ in ('LightGet', 'MultiZoneSetColorZones'):
                abandoned += sum(
                    _count_payload(ref['net'], f, typ, mark_r).values())
        warn_run = sum(1 for lv, _m in run['logs']
                       if lv in ('WARNING', 'ERROR')) - run['n_warn_before']
        warn_ref = sum(1 for lv, _m in ref['logs']
                       if lv in ('WARNING', 'ERROR')) - ref['n_warn_before']
        if abandoned and warn_run - warn_ref < abandoned:
            violation('abandoned-without-log',
                      '{} requests to a device that never answers were '
                      'abandoned but only {} additional log entries were '
                      'written'.format(abandoned, warn_run - warn_ref))
    res['sample'] = {'family': sc['family'], 'mode': sc.get('mode'),
                     'bulbs': [(b['label'], _kind_of(b))
                               for b in sc['population']],
                     'faulty': sc['faulty'], 'plan': sc['plan'],
                     'inject': sc.get('inject'),
                     'script': _script_text(sc, True)
                     if sc['family'] == 'script' else '(probe script)',
                     'faults_fired': res['faults']}
    return res


def _slug(text):
    import re
    text = re.sub(r'"[^"]*"|\'[^\']*\'', 'X', text)
    text = re.sub(r'[0-9]+', 'N', text)
    text = re.sub(r'[^A-Za-z]+', '-', text).strip('-')
    return text[:60]


def _describe(sc):
    if sc['family'] == 'script':
        return 'inject={} plan={}'.format(sc['inject'], sc['plan'])
    return 'discovery mode={} plan={}'.format(sc['mode'], sc['plan'])


def _first_diff(a, b):
    for k in range(max(len(a), len(b))):
        x = a[k] if k < len(a) else None
        y = b[k] if k < len(b) else None
        if x != y:
            return k, x, y
    return -1, None, None


def _failed_runs(net, dev, mark):
    """Unanswered attempts per identical datagram sent to device `dev`."""
    failed = {(d, name, occ) for (d, name, occ, _k) in net.dropped}
    out = {}
    for (ev, _t, d, name, occ, raw) in net.wire:
        if d != dev or ev <= mark:
            continue
        if (d, name, occ) in failed:
            key = (name, raw)
            out[key] = out.get(key, 0) + 1
    return out


def _ref_runs(net, dev, mark):
    """How often the fault-free run sends each identical datagram to `dev`
    (= the number of logical requests of that kind)."""
    out = {}
    for (ev, _t, d, name, _occ, raw) in net.wire:
        if d != dev or ev <= mark:
            continue
        key = (name, raw)
        out[key] = out.get(key, 0) + 1
    return out


def _count_payload(net, dev, typ, mark):
    out = {}
    for r in net.bulbs[dev].record:
        if r['ev'] > mark and r['type'] == typ:
            out[r['payload']] = out.get(r['payload'], 0) + 1
    return out


def _count_wire(net, dev, typ, mark):
    return sum(1 for (ev, _t, d, name, _o, _raw) in net.wire
               if ev > mark and d == dev and name == typ)


# ---------------------------------------------------------------------------
# Enumerated tier: every request site x prefix length on a fixed corpus
# ---------------------------------------------------------------------------
def extra_cases(tier):
    from sim import policy
    n_corpus = 12 if tier == 'quick' else 60
    cases = []
    fams = [('script', 'plain', None), ('script', 'mz', None),
            ('script', 'matrix', None), ('discovery', 'plain', 'first'),
            ('discovery', 'mz', 'second'), ('discovery', 'matrix', 'refresh'),
            ('discovery', 'mz', 'first'), ('discovery', 'matrix', 'second'),
            ('discovery', 'plain', 'refresh'), ('script', 'mz', None),
            ('discovery', 'matrix', 'first'), ('discovery', 'mz', 'refresh')]
    for k in range(n_corpus):
        rng = random.Random(7700 + k)
        fam, fk, mode = fams[k % len(fams)]
        sc = gen(rng, tier, k, family=fam, faulty_kind=fk, mode=mode)
        # site discovery: run fault-free, list request sites of the device
        if not sc['faulty']:
            continue
        f = sc['faulty'][0]
        sc0 = copy.deepcopy(sc)
        sc0['plan'] = []
        if sc['family'] == 'discovery':
            if sc['mode'] == 'thread':
                continue
            obs = _simulate(sc0, policy.ReplayChooser([]), faults=False,
                            with_inject=False)
            # sites of the (first) discovery conversation
            sites = {}
            for (_ev, _t, d, name, occ, _raw) in obs['sim'].net.wire:
                if d == f and name.startswith(('Get', 'MultiZoneGet')):
                    sites[name] = max(sites.get(name, 0), occ)
            for name, n in sorted(sites.items()):
                c = copy.deepcopy(sc0)
                c['plan'] = [{'kind': 'drop_response', 'device': f,
                              'request': name, 'occurrence': '*'}]
                cases.append(c)
                n_first = max(1, n // 2) if sc['mode'] != 'first' else n
                for o in range(1, min(n_first, 4) + 1):
                    for ln in (1, 2, 3):
                        for kind in ('drop_response',):
                            c = copy.deepcopy(sc0)
                            c['plan'] = [{'kind': kind, 'device': f,
                                          'request': name, 'occurrence':
                                          list(range(o, o + ln))}]
                            cases.append(c)
        else:
            obs = _simulate(sc0, policy.ReplayChooser([]), faults=False,
                            with_inject=False)
            if 'mark' not in obs:
                continue
            sites = {}
            for (ev, _t, d, name, occ, _raw) in obs['sim'].net.wire:
                if d == f and ev > obs['mark']:
                    sites[name] = max(sites.get(name, 0), occ)
            for name, n in sorted(sites.items()):
                for o in range(1, min(n, 5) + 1):
                    for ln in (1, 2, 3):
                        kinds = ('drop_request', 'drop_response') \
                            if ln == 3 else ('drop_response',)
                        for kind in kinds:
                            c = copy.deepcopy(sc0)
                            c['plan'] = [{'kind': kind, 'device': f,
                                          'request': name, 'occurrence':
                                          list(range(o, o + ln))}]
                            cases.append(c)
            c = copy.deepcopy(sc0)
            c['plan'] = [{'kind': 'silent', 'device': f, 'from': 0.0,
                          'to': 1e9}]
            cases.append(c)
    return cases


if __name__ == '__main__':
    from sim import driver
    sys.exit(driver.main(sys.modules[__name__]))
