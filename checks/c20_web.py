"""C20 - the web front end runs only the manifest's scripts, escaped, without
duplicates; stop / stop-current / stop-all hit exactly their targets; status
and capture render.

Real: web/web_app.py, web/front_end.py (handlers and the route table),
JobControl, ScriptJob, parser/VM/clock for the started scripts, snapshot code.
Stub: Flask (routing + render_template recorder), files, LAN/bulbs.
"""
import copy
import html
import json
import sys

from sim import core, env, world

PROP = 'C20'
LEVEL = 'exploration'
RULE = ('seeded scenarios: a manifest of 1-6 entries (file names incl. HTML '
        'metacharacters, quotes, spaces, dots, leading dashes, with or '
        'without .ls; optional path, title, run_background; colours with '
        'metacharacters; optional pseudo-entries off / stop-current / '
        'stop-all) installed in an in-memory file table with one quick, slow '
        'or endless script per file, then a sequential history of 3-12 '
        'requests (listed paths, repeats of running paths, unlisted and '
        'hostile paths, /stop/<p>, /stop-current, /stop-all, /off, /status, '
        '/capture, /) with virtual pauses, while the started job and clock '
        'threads are interleaved with the request thread by the seeded '
        'scheduler. Non-trivial: at least one listed script was started and '
        'one more request arrived while it ran; distinct = distinct event log.')
ASSUMPTIONS = [
    'Flask is absent: the stub dispatches like Flask for the rules '
    'front_end.py declares; "renders" means the handler reached '
    'render_template with its context (no Jinja)',
    'requests are sequential (one request thread); concurrency is between it '
    'and the job/clock threads',
    'exceptions of /off, /stop-current, /stop-all raised after they acted, '
    'when the manifest lacks the pseudo-entry they display, are not judged',
]
COMPONENTS = {
    'real': ['web/web_app.py', 'web/front_end.py',
             'bardolph/lib/job_control.py',
             'bardolph/controller/script_job.py', 'bardolph/parser/*',
             'bardolph/vm/*', 'bardolph/lib/clock.py',
             'bardolph/controller/snapshot.py', 'light_set / lifx_lan_* / '
             'lifxlan'],
    'stub': ['flask (routing, render_template recorder)', 'file system',
             'thread scheduling', 'clock', 'UDP network', 'bulb firmware'],
}
PROBES = ['listed_started', 'background_started', 'repeat_while_running',
          'unlisted_request', 'hostile_request_404', 'stop_named',
          'stop_current', 'stop_all', 'status_page', 'capture_page',
          'hostile_manifest_string', 'job_completed_between_requests',
          'off_page', 'empty_light_set']
WALL_CAP = {'quick': 150, 'thorough': 1500}

STATIC = ('capture', 'off', 'status', 'stop-current', 'stop-all')
FILES = ['on-all.ls', 'fade_to_dark.ls', 'night-light.ls', 'cycle.ls',
         'a&b.ls', '<i>x.ls', 'say "hi".ls', "it's.ls", 'two words.ls',
         '-dash.ls', 'dots.in.name.ls', 'noext', 'UPPER.LS', 'x.ls.ls',
         'fade--slow.ls', '__private.ls', 'a_-b_.ls', 'mIxEd_cAsE-9lives.ls']
COLOURS = ['Linen', '#222', 'rgb(21, 139, 168)', '"><script>',
           "a'b", 'x&y']


def runs_for(tier):
    return 9000 if tier == "quick" else 200000


def derive_path(entry):
    path = entry.get('path', '')
    if len(path) == 0:
        path = entry['file_name']
        if path[-3:] == '.ls':
            path = path[:-3]
    return path


def derive_title(entry):
    title = entry.get('title', '')
    if len(title) == 0:
        title = derive_path(entry).replace('_', ' ').replace('-', ' ').title()
    return title


def gen(rng, tier, index):
    from sim import policy
    from gen import populations
    pop = populations.gen_population(rng, 2, 3, kinds=('plain', 'mz'),
                                     ensure=('plain',))
    files = rng.sample(FILES, rng.randint(1, 6))
    manifest = []
    scripts = {}
    for k, f in enumerate(files):
        e = {'file_name': f,
             'background': rng.choice(COLOURS), 'color': rng.choice(COLOURS)}
        if rng.random() < 0.3:
            e['path'] = rng.choice(['p{}'.format(k), 'a b', 'x&y', 'q"q',
                                    'run-{}'.format(k), 'Z_{}'.format(k)])
        if rng.random() < 0.4:
            e['title'] = rng.choice(['On 5 Min.', '<b>Bold</b>', 'R&B',
                                     'plain title', "o'clock"])
        if rng.random() < 0.3:
            e['run_background'] = True
        elif rng.random() < 0.1:
            e['run_background'] = False
        if rng.random() < 0.08:
            e['path'] = ''          # explicit empty: the default applies
        if rng.random() < 0.08:
            e['title'] = ''
        if rng.random() < 0.2:
            e['icon'] = 'switch'
        manifest.append(e)
        kind = rng.choice(['quick', 'quick', 'slow', 'endless'])
        tag = 2000 + 10 * k
        if kind == 'quick':
            scripts[f] = 'time 0 kelvin {} set all'.format(tag)
        elif kind == 'slow':
            scripts[f] = ('time {} kelvin {} set all kelvin {} set all'
                          .format(rng.choice([0.3, 1.5]), tag, tag + 1))
        else:
            scripts[f] = ('time {} repeat begin kelvin {} set all end'
                          .format(rng.choice([0.2, 0.7]), tag))
    if len(manifest) >= 2 and rng.random() < 0.15:
        # two entries for one path: the later one wins
        dup = dict(rng.choice(manifest))
        dup['title'] = 'Second'
        dup['color'] = rng.choice(COLOURS)
        if rng.random() < 0.5:
            other = rng.choice(files)
            dup['path'] = derive_path(dup)
            dup['file_name'] = other
        manifest.append(dup)
    for pseudo in ('off', 'stop-current', 'stop-all'):
        if rng.random() < 0.4:
            e = {'file_name': 'off-all.ls' if pseudo == 'off' else '',
                 'path': pseudo, 'title': pseudo.title(),
                 'background': '#222', 'color': 'Linen'}
            manifest.append(e)
            if pseudo == 'off':
                scripts['off-all.ls'] = 'time 0 duration 1 off all'
    paths = [derive_path(e) for e in manifest
             if derive_path(e) not in STATIC]
    reqs = []
    for _ in range(rng.randint(3, 12)):
        k = rng.random()
        if k < 0.38 and paths:
            p = '/' + rng.choice(paths)
        elif k < 0.48 and reqs and paths:
            p = rng.choice([r['path'] for r in reqs])       # a repeat
        elif k < 0.58:
            p = '/' + rng.choice(
                ['nosuch', '..', 'scripts', 'manifest.json', 'ON-ALL',
                 ' on-all', 'on-all.ls', rng.choice(files),
                 html.escape(rng.choice(files)), '__snapshot__',
                 '__snapshot__.ls', 'stop'])
        elif k < 0.64:
            p = rng.choice(['/../../etc/passwd', '/a/b/c', '//', '/stop/',
                            '/stop/a/b', '/scripts/on-all.ls', 'nopath',
                            '/capture/', '/status/x'])
        elif k < 0.76 and paths:
            p = '/stop/' + rng.choice(paths + ['nosuch'])
        elif k < 0.81:
            p = '/stop-current'
        elif k < 0.86:
            p = '/stop-all'
        elif k < 0.89:
            p = '/off'
        elif k < 0.93:
            p = '/status'
        elif k < 0.97:
            p = '/capture'
        else:
            p = '/'
        reqs.append({'path': p,
                     'pause': rng.choice([0, 0, 0.001, 0.05, 0.25, 0.9,
                                          2.0])})
    bg_paths = [derive_path(e) for e in manifest
                if e.get('run_background') and derive_path(e) not in STATIC
                and e['file_name']]
    if bg_paths and rng.random() < 0.5:
        # stop a background script and start it again at once, while the
        # stopped run is still winding down; then stop again
        p = '/' + rng.choice(bg_paths)
        # make that script slow to wind down: most of the time it is inside
        # a read that takes 80 ms to be answered
        pop[0]['latency'] = 0.08
        for e in manifest:
            if derive_path(e) == p[1:] and e['file_name']:
                scripts[e['file_name']] = (
                    'time 0.05 repeat begin get "{}" hue 5 saturation 5 '
                    'brightness 5 kelvin 2999 set all end'.format(
                        pop[0]['label']))
        burst = [{'path': p, 'pause': 0},
                 {'path': '/stop' + p, 'pause': rng.choice([0.05, 0.3, 1.1])},
                 {'path': p, 'pause': 0},
                 {'path': '/', 'pause': rng.choice([0, 0.6])},
                 {'path': p, 'pause': rng.choice([0, 0.5, 1.5])},
                 {'path': rng.choice(['/stop' + p, '/stop-all']),
                  'pause': rng.choice([0, 0.4])},
                 {'path': '/', 'pause': 1.0}]
        k = rng.randint(0, len(reqs))
        reqs[k:k] = burst
    if any(r['path'] in ('/status', '/capture') for r in reqs) and \
            rng.random() < 0.2:
        pop = []        # nothing answers the discovery: an empty light set
    return {'policy': policy.draw_policy(rng, est_len=600, stalls=False),
            'population': pop, 'tick': rng.choice([0.05, 0.1, 0.5]),
            'manifest': manifest, 'scripts': scripts, 'requests': reqs}


def shrink(sc):
    for i in range(len(sc['requests']) - 1, -1, -1):
        if len(sc['requests']) > 1:
            c = copy.deepcopy(sc)
            del c['requests'][i]
            yield c
    for i in range(len(sc['manifest']) - 1, -1, -1):
        if len(sc['manifest']) > 1:
            c = copy.deepcopy(sc)
            del c['manifest'][i]
            yield c
    for i, e in enumerate(sc['manifest']):
        for key in ('title', 'path', 'run_background', 'icon'):
            if key in e:
                c = copy.deepcopy(sc)
                del c['manifest'][i][key]
                yield c
    for i, r in enumerate(sc['requests']):
        if r['pause']:
            c = copy.deepcopy(sc)
            c['requests'][i]['pause'] = 0
            yield c
    if len(sc['population']) > 1:
        c = copy.deepcopy(sc)
        del c['population'][-1]
        yield c


# ---------------------------------------------------------------------------
def execute(scenario, chooser):
    from sim import flask_stub, fsmem
    flask_stub.install()
    sc = scenario
    cap = env.capture_logs()
    viol = []
    probes = {}
    obs = []
    st = {}

    def violation(sig, msg):
        if not any(v['sig'] == 'C20/' + sig for v in viol):
            viol.append({'sig': 'C20/' + sig, 'msg': msg})

    def main(sim):
        from bardolph.lib import injection
        from bardolph.lib.job_control import JobControl
        from web import web_app, i_web, front_end
        env.install_web()
        fs = fsmem.MemFS()
        fs.put('web/manifest.json', json.dumps(sc['manifest']))
        for f, text in sc['scripts'].items():
            fs.put('scripts/' + f, text)
        fsmem.install(fs)
        st['fs'] = fs
        net, ls, ok = env.build_world(
            sim, sc['population'],
            settings={'sleep_time': sc['tick'], 'script_path': 'scripts',
                      'manifest_file_name': 'manifest.json',
                      'path_root': '/'})
        st['net'] = net
        if not sc['population']:
            probes['empty_light_set'] = 1
        jlog = []
        st['jlog'] = jlog
        inst = {}           # id(agent) -> index of its hand-over in jlog
        agents_alive = []   # keeps the agents referenced (ids stay unique)
        agents_alive_all = []

        def unfinished_instances():
            out = []
            for a in agents_alive_all:
                t = world.thread_of_agent(sim, a)
                if t is None or t.state != 'done':
                    out.append(inst.get(id(a)))
            return out

        def live_instances():
            """Hand-overs that have a thread which has not ended (from just
            before the script body to the end of the completion
            callback)."""
            out = []
            for a in agents_alive_all:
                t = world.thread_of_agent(sim, a)
                if t is not None and t.state != 'done':
                    out.append(inst.get(id(a)))
            return out

        def running_instances():
            """Ground truth from the simulator, not from the controller's own
            tables: hand-overs whose script body is executing right now
            (ScriptJob.execute entered and not yet left)."""
            busy = st.get('executing', set())
            return [k for k, j in enumerate(jlog)
                    if j.get('job_id') in busy]

        class RecJobControl(JobControl):
            def _rec(self, op, name=None, job=None):
                last_open = [p for p, m in fs.opened if 'r' in m]
                jlog.append({'ev': sim.next_event(), 'op': op, 'name': name,
                             'file': last_open[-1] if last_open else None,
                             'program_len': len(job.program or [])
                             if job is not None and hasattr(job, 'program')
                             else None,
                             'listing': _listing_of(job)})

            def add_job(self, job, name=None):
                self._rec('add', name, job)
                agent = super().add_job(job, name)
                inst[id(agent)] = len(jlog) - 1
                jlog[-1]['job_id'] = id(job)
                agents_alive_all.append(agent)
                return agent

            def insert_job(self, job, name=None):
                self._rec('insert', name, job)
                return super().insert_job(job, name)

            def spawn_job(self, job, name):
                self._rec('spawn', name, job)
                agent = super().spawn_job(job, name)
                inst[id(agent)] = len(jlog) - 1
                jlog[-1]['job_id'] = id(job)
                agents_alive_all.append(agent)
                return agent

            def stop_job(self, name):
                self._rec('stop_job', name)
                return super().stop_job(name)

            def stop_current(self):
                cur = self.get_current()
                self._rec('stop_current', None if cur is None else cur.name)
                return super().stop_current()

            def stop_background(self):
                self._rec('stop_background')
                return super().stop_background()

            def clear_queue(self):
                self._rec('clear_queue')
                return super().clear_queue()


        real_jc = web_app.JobControl
        web_app.JobControl = RecJobControl      # WebApp() builds its own
        try:
            wa = web_app.WebApp()
        except core.SimAbort:
            raise
        except Exception as ex:
            st['init_error'] = '{}: {}'.format(type(ex).__name__, ex)
            return
        finally:
            web_app.JobControl = real_jc
        jobs = world.job_control_of(wa)
        if not isinstance(jobs, RecJobControl):
            st['init_error'] = 'WebApp did not build its JobControl itself'
            return
        injection.bind_instance(wa).to(i_web.WebApp)
        st['wa'] = wa
        del flask_stub.rendered[:]
        for r in sc['requests']:
            if r['pause']:
                sim.sleep(r['pause'])
            o = {'path': r['path'], 'j0': len(jlog), 'f0': len(fs.opened),
                 'r0': len(flask_stub.rendered), 'ev0': sim.next_event(),
                 'queued_before': [a.name for a in jobs.get_queued()],
                 'running_before': _names(jobs),
                 'inst_before': running_instances(),
                 'unfinished_before': unfinished_instances(),
                 'live_before': live_instances(),
                 'exc': None, 'status': 200}
            try:
                front_end.blueprint.dispatch(r['path'])
            except flask_stub.NotFound:
                o['status'] = 404
            except core.SimAbort:
                raise
            except Exception as ex:
                o['status'] = 500
                o['exc'] = '{}: {}'.format(type(ex).__name__, ex)
            o['jobs'] = jlog[o['j0']:]
            o['opens'] = fs.opened[o['f0']:]
            o['rendered'] = [(t, _ctx_summary(c))
                             for t, c in flask_stub.rendered[o['r0']:]]
            o['queued_after'] = [a.name for a in jobs.get_queued()]
            o['ev1'] = sim.next_event()
            o['inst_after'] = running_instances()
            o['live_after'] = live_instances()
            o['unfinished_after'] = unfinished_instances()
            o['running_after'] = _names(jobs)
            obs.append(o)
        # let everything finish: stop what is endless
        sim.set_budget(60000, 'final-drain')
        wa.stop_all()
        for _ in range(200):
            if not jobs.has_jobs():
                break
            sim.sleep(max(sc['tick'], 0.1))
        st['drained'] = not jobs.has_jobs()

    from bardolph.controller.script_job import ScriptJob as _SJ

    def w_request_stop(orig):
        def request_stop(self):
            st.setdefault('stops_seen', []).append(
                (core.current().next_event(), id(self)))
            orig(self)
        return request_stop

    def w_execute(orig):
        def execute(self):
            # what starts executing is what was loaded for the request
            for j in reversed(st.get('jlog', [])):
                if j.get('job_id') == id(self):
                    now = _listing_of(self)
                    if j.get('listing') is not None and now != j['listing']:
                        violation('program-changed-while-queued',
                                  'the job handed over for {!r} (file {!r}) '
                                  'starts executing a program of {} '
                                  'instructions that differs from the {} '
                                  'instructions loaded for it'.format(
                                      j['name'], j['file'], len(now or []),
                                      len(j['listing'])))
                    break
            busy = st.setdefault('executing', set())
            busy.add(id(self))
            try:
                orig(self)
            finally:
                busy.discard(id(self))
        return execute

    with world.StdoutCapture(), world.Instrument(
            _SJ, {'request_stop': w_request_stop, 'execute': w_execute}):
        sim, out = world.run_sim(main, chooser, gran=sc['policy']['gran'],
                                 step_cap=250000, fairness=60)
    res = {'violations': viol, 'digest': sim.digest(),
           'switch_digest': sim.switch_digest(), 'sim_time': sim.now,
           'steps': sim.steps, 'faults': {}, 'probes': probes,
           'deviations': list(sim.deviations), 'harness_error': None,
           'shape': ','.join(_route_of(r['path']) for r in sc['requests'])}
    res['faults'] = {
        'stop_request': sum(1 for r in sc['requests']
                            if r['path'].startswith('/stop')),
        'hostile_or_unlisted_request': sum(
            1 for r in sc['requests'] if _route_of(r['path']) == '404'),
        'thread_preemption': sim.switches}
    if out.status == 'deadlock':
        violation('hang', world.fmt_stacks(out.stacks))
        return res
    if out.status in ('stepcap', 'budget') and 'init_error' not in st \
            and obs:
        # typically an endless script whose stop was lost (C09 known
        # finding) and which now runs without delays; the requests observed
        # so far are still judged
        probes['run_cut_short_by_step_cap'] = 1
        judge(sc, obs, st, violation, probes, res)
        return res
    if out.status != 'ok':
        res['harness_error'] = 'simulation ended {}: {} {}'.format(
            out.status, out.detail, world.fmt_stacks(out.stacks))
        return res
    if 'init_error' in st:
        res['harness_error'] = 'WebApp() failed: ' + st['init_error']
        return res
    judge(sc, obs, st, violation, probes, res)
    return res


def _names(jobs):
    cur = jobs.get_current()
    return [a.name for a in ([cur] if cur is not None else []) +
            list(jobs.get_background())]


def _route_of(path):
    if path in ('/', '/status', '/capture', '/off', '/stop-current',
                '/stop-all'):
        return path
    if path.startswith('/stop/') and path.count('/') == 2 and \
            len(path) > 6:
        return '/stop/<p>'
    if path.startswith('/') and path.count('/') == 1 and len(path) > 1:
        return '/<p>'
    return '404'


def _ctx_summary(ctx):
    out = {}
    for k, v in ctx.items():
        if k == 'script' and v is not None:
            out['script'] = _sc_fields(v)
        elif k == 'scripts':
            out['scripts'] = [_sc_fields(x) for x in v]
        elif k in ('message', 'title', 'path_root', 'icon'):
            out[k] = v
        elif k == 'data':
            out['data_keys'] = sorted(v.keys())
    return out


def _sc_fields(c):
    return {'file_name': c.file_name, 'path': c.path, 'title': c.title,
            'background': c.background, 'color': c.color,
            'running': c.running, 'run_background': c.run_background}


def judge(sc, obs, st, violation, probes, res):
    table = {}
    for e in sc['manifest']:
        table[derive_path(e)] = e
    handed = {}          # raw path -> name under which its job was handed
    started_any = False
    nontrivial = False
    for s in sc['manifest']:
        if any(ch in s['file_name'] + s.get('title', '') +
               s.get('path', '') + s['color'] + s['background']
               for ch in '&<>"\''):
            probes['hostile_manifest_string'] = 1
    for i, o in enumerate(obs):
        path = o['path']
        route = _route_of(path)
        where = 'request #{} GET {!r}'.format(i + 1, path)
        new_jobs = [j for j in o['jobs'] if j['op'] in ('add', 'spawn',
                                                        'insert')]
        stops = [j for j in o['jobs'] if j['op'].startswith('stop') or
                 j['op'] == 'clear_queue']
        script_opens = [p for p, m in o['opens']
                        if 'r' in m and p.startswith('scripts')]
        # ---- every rendered ScriptControl is escaped, and its `running`
        # flag is right whenever the truth is unambiguous ------------------
        for tmpl, ctx in o['rendered']:
            for c in ([ctx['script']] if ctx.get('script') else []) + \
                    ctx.get('scripts', []):
                _check_escaped(c, sc, violation, where)
                _check_running_flag(c, o, st, violation, where)
        if route == '404':
            probes['hostile_request_404'] = 1
            if o['status'] != 404 or new_jobs or stops or script_opens:
                violation('unroutable-path-acted',
                          '{}: status {} jobs {} stops {} files {}'.format(
                              where, o['status'], new_jobs, stops,
                              script_opens))
            continue
        if route == '/<p>':
            p = path[1:]
            e = table.get(p)
            if e is None:
                probes['unlisted_request'] = 1
                if new_jobs or script_opens:
                    violation('unlisted-path-started',
                              '{}: not a manifest path, yet jobs {} were '
                              'handed to the controller / files {} opened'
                              .format(where, new_jobs, script_opens))
                if o['status'] != 200:
                    violation('handler-raises/run',
                              '{}: {}'.format(where, o['exc']))
                continue
            if o['status'] != 200:
                violation('handler-raises/run', '{}: {}'.format(
                    where, o['exc']))
                continue
            action = [c for t, c in o['rendered'] if t == 'action.html']
            reported = action[0]['script']['running'] if action and \
                action[0].get('script') else None
            if started_any:
                nontrivial = nontrivial or bool(o['running_before'])
            if reported:
                probes['repeat_while_running'] = 1
                if new_jobs:
                    violation('started-while-reported-running',
                              '{}: the page reports the script as running '
                              'and {} more job(s) were handed to the '
                              'controller'.format(where, len(new_jobs)))
                continue
            if len(new_jobs) != 1:
                violation('not-exactly-one-job',
                          '{}: listed and not reported running, but {} jobs '
                          'were handed to the controller'.format(
                              where, len(new_jobs)))
                continue
            j = new_jobs[0]
            want_op = 'spawn' if e.get('run_background', False) else 'add'
            if j['op'] != want_op:
                violation('queued-vs-background',
                          '{}: manifest says run_background={}, the job was '
                          'handed over with {}'.format(
                              where, e.get('run_background', False),
                              j['op']))
            want_file = 'scripts/' + e['file_name'] if e['file_name'] \
                else 'scripts'
            if e['file_name'] and script_opens != [want_file]:
                violation('wrong-file',
                          '{}: the manifest lists file {!r} for this path; '
                          'files opened for execution: {}'.format(
                              where, want_file, script_opens))
            handed[p] = j['name']
            started_any = True
            probes['listed_started'] = 1
            if want_op == 'spawn':
                probes['background_started'] = 1
            continue
        if route == '/stop/<p>':
            p = path[len('/stop/'):]
            e = table.get(p)
            if o['status'] != 200:
                violation('handler-raises/stop', '{}: {}'.format(
                    where, o['exc']))
                continue
            if new_jobs or script_opens:
                violation('stop-started-something',
                          '{}: jobs {} files {}'.format(where, new_jobs,
                                                        script_opens))
            action = [c for t, c in o['rendered'] if t == 'action.html']
            reported = action[0]['script']['running'] if action and \
                action[0].get('script') else None
            name = handed.get(p)
            mine = [k for k, j in enumerate(st['jlog'])
                    if j['op'] in ('add', 'spawn') and j['name'] == name
                    and j['ev'] < o['ev0']]
            before = [k for k in o['inst_before'] if k in mine]
            if e is not None and name is not None and before:
                # a job handed over for p was running when the request came
                probes['stop_named'] = 1
                named = [s for s in stops if s['op'] == 'stop_job']
                still = any(k in o['inst_after'] for k in before)
                if not named and still:
                    violation('stop-not-delivered',
                              '{}: the job started for this path runs under '
                              'the name {!r} and was running, but no stop '
                              'request was issued (page reported running={})'
                              .format(where, name, reported))
                elif named and named[0]['name'] != name:
                    violation('stop-wrong-target',
                              '{}: the job for this path runs under the '
                              'name {!r}; the stop request named {!r}'
                              .format(where, name, named[0]['name']))
            other = [s for s in stops if s['op'] != 'stop_job']
            if other:
                violation('stop-wrong-scope',
                          '{}: /stop/<p> also issued {}'.format(
                              where, [s['op'] for s in other]))
            continue
        if route == '/stop-current':
            probes['stop_current'] = 1
            ops = [s['op'] for s in stops]
            if ops != ['stop_current'] or new_jobs:
                violation('stop-current-scope',
                          '{}: controller calls {} new jobs {}'.format(
                              where, ops, new_jobs))
            continue
        if route == '/stop-all':
            probes['stop_all'] = 1
            ops = sorted(s['op'] for s in stops)
            if ops != ['clear_queue', 'stop_background', 'stop_current'] \
                    or new_jobs:
                violation('stop-all-scope',
                          '{}: controller calls {} new jobs {}'.format(
                              where, ops, new_jobs))
            if o['queued_after']:
                violation('stop-all-queue-not-empty',
                          '{}: still queued {}'.format(where,
                                                       o['queued_after']))
            continue
        if route == '/off':
            probes['off_page'] = 1
            e = table.get('off')
            ops = [s['op'] for s in stops]
            if ops != ['stop_current']:
                violation('off-scope', '{}: controller calls {}'.format(
                    where, ops))
            if e is not None:
                if len(new_jobs) != 1 or o['status'] != 200:
                    violation('off-not-started',
                              '{}: manifest has an "off" entry but {} jobs '
                              'were started (status {} {})'.format(
                                  where, len(new_jobs), o['status'],
                                  o['exc']))
            continue
        if route in ('/status', '/capture', '/'):
            if route == '/status':
                probes['status_page'] = 1
            if route == '/capture':
                probes['capture_page'] = 1
            if o['status'] != 200:
                violation('handler-raises' + route,
                          '{}: {}'.format(where, o['exc']))
                continue
            want = 'status.html' if route == '/status' else 'index.html'
            if not any(t == want for t, _c in o['rendered']):
                violation('page-not-rendered' + route,
                          '{}: rendered {}'.format(
                              where, [t for t, _c in o['rendered']]))
            if route == '/capture':
                if 'scripts/__snapshot__.ls' not in st['fs'].files:
                    violation('capture-not-written',
                              '{}: no __snapshot__.ls under script_path'
                              .format(where))
            if new_jobs or stops:
                violation('page-acted', '{}: {} {}'.format(where, new_jobs,
                                                           stops))
    # ---- stop requests reach the job objects they are meant for -------------
    for i, o in enumerate(obs):
        route = _route_of(o['path'])
        if route not in ('/stop-all', '/stop/<p>') or o['status'] == 404:
            continue
        got = {jid for ev, jid in st.get('stops_seen', [])
               if o['ev0'] < ev < o['ev1']}
        # instances running before and after the request and not stopped
        for k in o['inst_before']:
            if k is None or k not in o['inst_after']:
                continue
            j = st['jlog'][k]
            if route == '/stop/<p>' and j['name'] != o['path'][len('/stop/'):]:
                continue
            if j.get('job_id') not in got:
                violation('stop-missed-running-job',
                          'request #{} GET {!r}: the job started for {!r} '
                          '(hand-over #{}) was running before and after the '
                          'request but was never asked to stop'.format(
                              i + 1, o['path'], j['name'], k))
                break
    # ---- stop-all: what was queued never starts afterwards ------------------
    for i, o in enumerate(obs):
        if _route_of(o['path']) != '/stop-all' or not o['queued_before']:
            continue
        # (a name that is also running at that moment is ambiguous: the
        # same path can be queued again while its first job still runs)
        banned = set(o['queued_before']) - set(o['running_before'])
        # a job that left the queue just before it was cleared and was then
        # the target of this request's stop-current has been dealt with
        # (whether that stop took effect is C09's business)
        banned -= {j['name'] for j in o['jobs']
                   if j['op'] == 'stop_current'}
        # ground truth for the same thing: a job whose own request_stop() ran
        # during this request (for example one a finishing job's completion
        # callback took out of the queue while this request was on its way)
        # did receive the stop-all; whether it obeys is C09's business (a stop
        # that arrives before the job's first instruction is C09's known
        # finding)
        told = {jid for ev, jid in st.get('stops_seen', [])
                if o['ev0'] <= ev <= o['ev1']}
        banned -= {j['name'] for j in st['jlog']
                   if j.get('job_id') in told}
        for k in range(i, len(obs)):
            later = obs[k]
            if k > i:
                for j in later['jobs']:
                    if j['op'] in ('add', 'spawn', 'insert'):
                        banned.discard(j['name'])     # handed over again
            ran = banned & set(later['running_after'])
            if ran:
                violation('stop-all-started-queued-job',
                          'request #{} GET /stop-all: {} was queued when the '
                          'request arrived and is running after request #{}'
                          .format(i + 1, sorted(ran), k + 1))
                break
    # ---- only manifest files are ever executed ----------------------------
    listed = {'scripts/' + e['file_name'] for e in sc['manifest']
              if e['file_name']}
    for j in st['jlog']:
        if j['op'] in ('add', 'spawn', 'insert') and j['file'] is not None:
            if j['file'].startswith('scripts') and j['file'] not in listed \
                    and j['file'] != 'scripts':
                violation('wrong-file',
                          'a job was started from {!r}, which the manifest '
                          'does not list (listed: {})'.format(
                              j['file'], sorted(listed)))
    if len(obs) >= 2 and any(o['running_before'] for o in obs[1:]):
        probes['job_completed_between_requests'] = 1
    res['nontrivial'] = nontrivial or (started_any and len(obs) > 1)
    res['sample'] = {'manifest': sc['manifest'],
                     'requests': [(o['path'], o['status'],
                                   [j['op'] for j in o['jobs']])
                                  for o in obs]}


def _listing_of(job):
    if job is None or not hasattr(job, 'program') or job.program is None:
        return None
    from checks.c17_history import listing
    return listing(job.program)


def _running_now(o, st):
    return o['running_after']


def _check_running_flag(c, o, st, violation, where):
    """A script shown as running must have a job of its path running, and
    vice versa - judged only when no job of that name started, ended or was
    handed over during the request."""
    name = html.unescape(c['path'])
    mine = {k for k, j in enumerate(st['jlog'])
            if j['op'] in ('add', 'spawn') and j['name'] == name}
    if any(j['name'] == name for j in o['jobs']
           if j['op'] in ('add', 'spawn')):
        return
    before = {k for k in o['inst_before'] if k in mine}
    after = {k for k in o['inst_after'] if k in mine}
    if before != after:
        return                      # a transition during the request
    truth = bool(before)
    if not truth:
        # a job of that path between hand-over to a thread and the end of its
        # completion callback counts as running for the controller; one that
        # was queued may have run from start to end during the request.  A
        # job that merely sits in the queue, before and after, is not running.
        # (another job's completion callback may be half-way through
        # starting the next one: no verdict while any job thread is outside
        # its script body)
        if set(o['live_before']) - set(o['inst_before']) or \
                set(o['live_after']) - set(o['inst_after']):
            return
        for k in mine:
            if k in o['live_before'] or k in o['live_after']:
                return
            if k in o['unfinished_before'] and \
                    k not in o['unfinished_after']:
                return
    if bool(c['running']) != truth:
        violation('running-flag-wrong',
                  '{}: the page shows {!r} with running={}, but {} job of '
                  'that path was running before and after the request'
                  .format(where, c['path'], c['running'],
                          'a' if truth else 'no'))


def _check_escaped(c, sc, violation, where):
    """c: field summary of a ScriptControl that reached a page."""
    for e in reversed(sc['manifest']):      # a later entry wins its path
        if html.escape(derive_path(e)) != c['path']:
            continue
        want = {'file_name': html.escape(e['file_name']),
                'path': html.escape(derive_path(e)),
                'title': html.escape(derive_title(e)),
                'background': html.escape(e['background']),
                'color': html.escape(e['color'])}
        bad = {k: (c[k], v) for k, v in want.items() if c[k] != v}
        if bad:
            violation('not-escaped-or-derived',
                      '{}: page got {} (expected html.escape of the manifest '
                      'value / documented default)'.format(where, bad))
        return
    violation('unknown-script-on-page',
              '{}: a page shows a script that matches no manifest entry: {}'
              .format(where, c))


if __name__ == '__main__':
    from sim import driver
    sys.exit(driver.main(sys.modules[__name__]))
