"""C17 - compiles and runs are independent of what was compiled or run before.

Two harnesses, one oracle idea: the long-lived object must answer like a
fresh one.
 (a) compile histories: one Parser receives 2-8 texts (valid ones from the
     script generator and damaged ones) - result must equal a fresh Parser's.
 (b) execution histories: on one long-lived environment a history of runs,
     stopped runs, aborted runs and re-loads on the same ScriptJob objects,
     under the seeded scheduler; every complete run must reproduce the trace
     of a fresh job in a fresh environment, a stopped run a prefix of it, and
     the compiled program must not change.
"""
import copy
import hashlib
import json
import random
import re
import sys

from sim import core, env, world
from gen import scripts, populations

PROP = 'C17'
LEVEL = 'exploration'
RULE = ('(a) compile histories: 2-8 texts per Parser object, each a generated '
        'script (all statement forms incl. time patterns with `or`) or a '
        'damaged copy (truncated / one token deleted / a stray token inserted '
        'so that the failure falls inside a loop, routine, if, matrix block, '
        'bracketed call or expression), in any order; (b) execution '
        'histories of 3-8 steps on 1-3 long-lived ScriptJob objects: run to '
        'completion, run and stop at a schedule-chosen point, run a text that '
        'aborts with a division by zero (also between the arguments of a '
        'printf), load a different valid or rejected text into the same job '
        'and execute it; thread schedule by seeded policy. Non-trivial: the '
        'history contains at least two operations on the same object with a '
        'failure, stop or different text between them; distinct = distinct '
        'history digest.')
ASSUMPTIONS = [
    'bulb state is reset at the start of every run so that `get` is a '
    'function of the script',
    'the trace of a run is: requested delays / time-of-day waits, datagrams '
    'with payloads in order, and the bytes written to stdout',
    'a stop that arrives before the VM armed its run loop is lost (C09 known '
    'finding); such a run simply counts as complete',
]
COMPONENTS = {
    'real': ['bardolph/parser/* (Parser, Context, CodeGen, sub-parsers)',
             'bardolph/controller/script_job.py', 'bardolph/vm/machine.py, '
             'call_stack.py, vm_io.py, vm_math.py, loader.py',
             'bardolph/lib/job_control.py, clock.py',
             'light_set / lifx_lan_* / lifxlan'],
    'stub': ['thread scheduling', 'clock', 'UDP network', 'bulb firmware'],
}
PROBES = ['compile_after_reject_in_matrix', 'compile_after_reject_in_loop',
          'compile_after_reject_in_routine', 'compile_after_success',
          'rerun_after_finish', 'rerun_after_stop', 'rerun_after_abort',
          'reload_other_text', 'reload_rejected_text', 'time_pattern_union',
          'abort_inside_printf', 'stopped_run_prefix_checked',
          'fresh_interpreter_pair']
WALL_CAP = {'quick': 150, 'thorough': 1500}
TYPES = ('LightSetColor', 'LightSetPower', 'MultiZoneSetColorZones',
         'SetTileState64', 'LightGet')


def runs_for(tier):
    return 9000 if tier == "quick" else 250000


# ---------------------------------------------------------------------------
# Text generation
# ---------------------------------------------------------------------------
_TOKEN = re.compile(r'"[^"]*"|\{|\}|\[|\]|[^\s{}\[\]]+')


def damage(rng, text):
    toks = _TOKEN.findall(text)
    if len(toks) < 3:
        return text + ' begin'
    how = rng.choice(['truncate', 'truncate', 'delete', 'insert', 'swap'])
    if how == 'truncate':
        k = rng.randint(1, len(toks) - 1)
        toks = toks[:k]
    elif how == 'delete':
        k = rng.randrange(len(toks))
        del toks[k]
    elif how == 'insert':
        k = rng.randrange(len(toks))
        toks.insert(k, rng.choice(['end', 'begin', 'with', '}', '{', ']',
                                   'and', 'zone', 'row', 'as', '12:75']))
    else:
        k = rng.randrange(len(toks) - 1)
        toks[k], toks[k + 1] = toks[k + 1], toks[k]
    return ' '.join(toks)


def _special_texts(rng, pop):
    """Hand-shaped texts aimed at state the compiler keeps between parses."""
    mat = [b['label'] for b in pop if b.get('product') == 57] or ['Candle']
    plain = [b['label'] for b in pop if b.get('product', 27) == 27] or ['Top']
    m, p = mat[0], plain[0]
    return [
        'set "{}" begin stage row 1 hue'.format(m),
        'set "{}" begin hue 5 stage row 1 2 column'.format(m),
        'on all',
        'hue 5 set all',
        'repeat 3 begin on "{}" break'.format(p),
        'repeat with i from 1 to 3 begin set "{}"'.format(p),
        'define f with x begin set "{}" kelvin {{x}}'.format(p),
        'define f with x begin kelvin x set all end f 2000',
        'if {{1 > 0}} begin set "{}"'.format(p),
        'stage row 1',
        'break',
        'define v 5 assign y {v + 1} kelvin {y * 300} set all',
        'time at 12:30 or 13:* or *:15 on all time 0 off all',
        'time at 9:1* on all',
        'assign y [unknownfn 3]',
        'print "a" print "b" println 3',
        'assign floor 2 kelvin {floor * 1000 + 500} set all',
        'assign va [floor 2.5] kelvin {va * 1000} set all println [sqrt 16]',
        'repeat with sqrt from 1 to 2 begin println sqrt end',
        'println [round 7.6] hue [floor 100.9] set all',
        'define lvl 40 brightness lvl set all',
        'brightness lvl set all',
        'define blink begin on all off all end blink',
        'blink',
        'printf "{} {}" 1',
        '',
    ]


def gen(rng, tier, index):
    from sim import policy
    family = rng.choice(['compile', 'compile', 'exec', 'exec', 'exec'])
    pop = populations.gen_population(
        rng, 2, 4, ensure=('plain', 'matrix', 'mz')[:rng.randint(1, 3)])
    pol = policy.draw_policy(rng, est_len=500, stalls=False)
    if family == 'compile':
        texts = []
        pool = _special_texts(rng, pop)
        for _ in range(rng.randint(2, 8)):
            k = rng.random()
            if k < 0.3:
                texts.append(rng.choice(pool))
            else:
                t, _m = scripts.gen_script(rng, pop, {
                    'max_statements': 9,
                    'time_at': ['12:*'], 'units_raw': 0.1})
                if rng.random() < 0.25:
                    t += '\ntime at {}:{}* or *:{:02d} on all time 0'.format(
                        rng.randint(0, 23), rng.randint(0, 5),
                        rng.randint(0, 58))
                if k < 0.65:
                    t = damage(rng, t)
                texts.append(t)
        return {'family': 'compile', 'policy': pol, 'population': pop,
                'texts': texts}
    # execution histories
    n_jobs = rng.randint(1, 3)
    tick = rng.choice([0.05, 0.1, 0.5])
    texts = []
    for _ in range(rng.randint(2, 5)):
        texts.append(_exec_text(rng, pop, tick))
    # the same program shape with other printf formats: identical
    # instruction addresses, different text
    for t in list(texts):
        if 'printf "' in t and rng.random() < 0.6:
            v = t.replace('printf "k={kelvin} {}', 'printf "sat={saturation} [{}]')
            v = v.replace('printf "{} and {} {kelvin}', 'printf "{1}/{0} {hue}')
            if v != t:
                texts.append(v)
    steps = []
    loaded = {}
    for j in range(n_jobs):
        t = rng.randrange(len(texts))
        steps.append(['load', j, t])
        loaded[j] = t
    for _ in range(rng.randint(3, 8)):
        j = rng.randrange(n_jobs)
        k = rng.choice(['run', 'run', 'run', 'run_stop', 'run_stop', 'load',
                        'load_bad'])
        if k == 'run':
            steps.append(['run', j])
        elif k == 'run_stop':
            steps.append(['run_stop', j,
                          rng.choice([0, 0.0003, 0.002, tick * 0.5, tick,
                                      tick * 2.5, 0.7]),
                          rng.choice([0, 3, 40])])
        elif k == 'load':
            steps.append(['load', j, rng.randrange(len(texts))])
        else:
            steps.append(['load_bad', j])
    return {'family': 'exec', 'policy': pol, 'population': pop, 'tick': tick,
            'texts': texts, 'steps': steps, 'n_jobs': n_jobs}


def _exec_text(rng, pop, tick):
    kind = rng.choice(['plain', 'plain', 'timed', 'abort', 'abort_printf',
                       'pattern', 'vars'])
    opts = {'max_statements': 8, 'reassign_after_get': True,
            'units_raw': 0.15}
    if kind == 'timed' or (kind in ('abort', 'abort_printf', 'vars')
                           and rng.random() < 0.5):
        # (a run that aborts never stops its clock: delays in the runs that
        # follow show what it left behind)
        opts['p_delay'] = 0.5
        opts['delays'] = [0, tick * 0.5, tick * 2, 0.3]
    t, _m = scripts.gen_script(rng, pop, opts)
    plain = [b['label'] for b in pop if b.get('product', 27) == 27]
    if kind == 'abort':
        lines = t.split('\n')
        pos = rng.randint(1, len(lines))
        lines.insert(pos, rng.choice([
            'assign zz {1 / 0}', 'hue {5 / 0} set all',
            'assign zq 0 brightness {10 / zq} set all']))
        t = '\n'.join(lines)
    elif kind == 'abort_printf':
        lines = t.split('\n')
        pos = rng.randint(1, len(lines))
        lines.insert(pos, rng.choice([
            'printf "{} {} {}\\n" 11 {7 / 0} 13',
            'print 5 printf "{} {}" 21 {1 / 0}',
            'printf "{} {}\\n" 31 32 printf "{} {}\\n" 41 {2 / 0}']))
        t = '\n'.join(lines)
    elif kind == 'pattern':
        # a pattern that already matches: hours wildcard, every minute digit
        t = ('time at *:0* or *:1* or *:2* or *:3* or *:4* or *:5*\n'
             'kelvin 2900 set all\ntime 0\n' + t)
    elif kind == 'vars':
        t = ('assign counter 3 define lim 2 units raw hue 1000 duration 250 '
             'units logical\n' + t + '\nassign counter {counter + 1} '
             'println counter printf "{} {hue} {duration}\\n" counter')
    if plain and rng.random() < 0.5:
        t += '\nprint 77 print "tail"'
    return t


def shrink(sc):
    if sc['family'] in ('compile', 'xproc'):
        for i in range(len(sc['texts']) - 1, -1, -1):
            if len(sc['texts']) > 1:
                c = copy.deepcopy(sc)
                del c['texts'][i]
                yield c
        for i, t in enumerate(sc['texts']):
            lines = t.split('\n')
            if len(lines) > 1:
                for k in range(len(lines)):
                    c = copy.deepcopy(sc)
                    c['texts'][i] = '\n'.join(lines[:k] + lines[k + 1:])
                    yield c
        return
    for i in range(len(sc['steps']) - 1, -1, -1):
        if sc['steps'][i][0] == 'load' and i < sc['n_jobs']:
            continue
        c = copy.deepcopy(sc)
        del c['steps'][i]
        yield c
    for ti, t in enumerate(sc['texts']):
        lines = t.split('\n')
        if len(lines) > 1:
            for k in range(len(lines)):
                c = copy.deepcopy(sc)
                c['texts'][ti] = '\n'.join(lines[:k] + lines[k + 1:])
                yield c
    if sc['policy']['gran'] != 'sync':
        c = copy.deepcopy(sc)
        c['policy']['gran'] = 'sync'
        c['policy']['p_switch'] = 0.0
        yield c


# ---------------------------------------------------------------------------
# (a) compile histories
# ---------------------------------------------------------------------------
def listing(program):
    """Instruction listing plus the 24x60 match table of every pattern."""
    from bardolph.lib.time_pattern import TimePattern
    out = []
    for inst in program or []:
        row = [str(inst.op_code)]
        for p in (inst.param0, inst.param1):
            if isinstance(p, TimePattern):
                tbl = ''.join('1' if p.match(h, m) else '0'
                              for h in range(24) for m in range(60))
                row.append('pattern:' + hashlib.md5(tbl.encode()).hexdigest()
                           + ':' + str(tbl.count('1')))
            else:
                row.append(repr(p))
        out.append(tuple(row))
    return out


def compile_outcome(parser, text):
    try:
        ok = parser.parse(text)
    except Exception as ex:          # totality is C06's business
        return ('raised', type(ex).__name__)
    if ok:
        return ('accepted', listing(parser.get_program()))
    return ('rejected', parser.get_errors())


_CHILD = r'''
import json, sys, warnings
warnings.filterwarnings('ignore')
sys.path[:0] = json.loads(sys.argv[1])
from checks.c17_history import compile_outcome
from bardolph.lib import injection
from bardolph.runtime import runtime_module
from bardolph.parser.parse import Parser
injection.configure()
runtime_module.configure()
texts = json.loads(sys.stdin.read())
print(json.dumps([compile_outcome(Parser(), t) for t in texts]))
'''


def _cross_process(sc, violation, probes, res):
    """The shortest histories there are: the same texts compiled by fresh
    Parser objects in two FRESH interpreters, in opposite orders.  Whatever a
    text's result is, it may not depend on which texts the process compiled
    before it (state kept at class or module level escapes every reference
    object that lives in this process)."""
    import subprocess
    texts = sc['texts']
    paths = [p for p in sys.path if p]
    outs = []
    for order in (list(range(len(texts))), list(range(len(texts)))[::-1]):
        p = subprocess.run(
            [sys.executable, '-c', _CHILD, json.dumps(paths)],
            input=json.dumps([texts[i] for i in order]), text=True,
            capture_output=True, timeout=120)
        if p.returncode != 0:
            res['harness_error'] = 'fresh interpreter failed: ' + \
                p.stderr[-400:]
            return
        got = json.loads(p.stdout.strip().split('\n')[-1])
        outs.append({order[k]: got[k] for k in range(len(texts))})
    probes['fresh_interpreter_pair'] = 1
    for i, t in enumerate(texts):
        if outs[0][i] != outs[1][i]:
            violation('compile/depends-on-process-history',
                      'text #{} {!r}: compiled first-to-last in a fresh '
                      'interpreter it is {}; compiled last-to-first in '
                      'another fresh interpreter it is {}'.format(
                          i, t[:100], _short(outs[0][i]),
                          _short(outs[1][i])))
            return


def _short(outcome):
    return '{} {}'.format(outcome[0], str(outcome[1])[:120])


def extra_cases(tier):
    """Fresh-interpreter pairs (a handful: each costs two interpreter
    start-ups)."""
    rng = random.Random(1717)
    from gen import populations
    from sim import policy
    cases = []
    fixed = ['assign Kelvin 5 hue Kelvin set all',
             'kelvin 2700 set all',
             'duration 2 on all',
             'assign Duration 3 assign Time 4 println {Duration + Time}',
             'define Hue 120 hue Hue set all',
             'time 1 hue 10 saturation 20 brightness 30 set all',
             'define floor 4 println floor',
             'println [floor 2.5]',
             'println "x"']
    cases.append({'family': 'xproc', 'texts': fixed,
                  'policy': policy.draw_policy(rng, est_len=10,
                                               stalls=False)})
    for k in range(2 if tier == 'quick' else 12):
        pop = populations.gen_population(rng, 2, 4)
        texts = []
        for _ in range(6):
            t, _m = scripts.gen_script(rng, pop, {'max_statements': 8})
            texts.append(t)
        texts += rng.sample(fixed, 3)
        rng.shuffle(texts)
        cases.append({'family': 'xproc', 'texts': texts,
                      'policy': policy.draw_policy(rng, est_len=10,
                                                   stalls=False)})
    return cases


def _compile_history(sc, violation, probes):
    from bardolph.lib import injection
    from bardolph.runtime import runtime_module
    from bardolph.parser.parse import Parser
    injection.configure()
    runtime_module.configure()
    # reference results taken before the history starts: a fresh Parser must
    # also be unaffected by what *other* Parser objects compiled
    want0 = {}
    for text in sc['texts']:
        if text not in want0:
            want0[text] = compile_outcome(Parser(), text)
    long_lived = Parser()
    prev = None
    for i, text in enumerate(sc['texts']):
        got = compile_outcome(long_lived, text)
        want = compile_outcome(Parser(), text)
        if want != want0[text]:
            violation('compile/shared-between-parsers',
                      'text #{}: a fresh Parser gives a different result '
                      'after other Parser objects compiled {} text(s) than '
                      'before: {} vs {}; text: {!r}'.format(
                          i + 1, i, want[0], want0[text][0], text[:200]))
            return
        if prev is not None:
            if prev[0] == 'accepted':
                probes['compile_after_success'] = 1
            elif prev[0] == 'rejected':
                pt = sc['texts'][i - 1]
                if 'begin' in pt and ('stage' in pt or ' row ' in pt):
                    probes['compile_after_reject_in_matrix'] = 1
                if 'repeat' in pt:
                    probes['compile_after_reject_in_loop'] = 1
                if 'define' in pt:
                    probes['compile_after_reject_in_routine'] = 1
        if ' or ' in text and want[0] == 'accepted':
            probes['time_pattern_union'] = 1
        if want[0] != 'accepted':
            probes['_rejected'] = probes.get('_rejected', 0) + 1
        if got != want:
            what = '{}-vs-{}'.format(got[0], want[0])
            detail = ''
            if got[0] == want[0] == 'accepted':
                k = next((j for j in range(max(len(got[1]), len(want[1])))
                          if j >= len(got[1]) or j >= len(want[1])
                          or got[1][j] != want[1][j]), None)
                detail = 'first differing instruction #{}: {} vs {}'.format(
                    k, got[1][k] if k is not None and k < len(got[1])
                    else None,
                    want[1][k] if k is not None and k < len(want[1])
                    else None)
                what = 'different-code'
            elif got[0] == want[0] == 'rejected':
                detail = 'errors {!r} vs {!r}'.format(got[1], want[1])
                what = 'different-errors'
            else:
                detail = '{} vs {}'.format(
                    got[1] if got[0] != 'accepted' else
                    '{} instructions'.format(len(got[1])),
                    want[1] if want[0] != 'accepted' else
                    '{} instructions'.format(len(want[1])))
            violation('compile/' + what,
                      'text #{} compiled on a parser that had seen {} earlier '
                      'text(s) gives a result different from a fresh parser: '
                      '{}; previous text: {!r}; this text: {!r}'.format(
                          i + 1, i, detail,
                          sc['texts'][i - 1][:200] if i else None,
                          text[:200]))
            return
        prev = want


# ---------------------------------------------------------------------------
# (b) execution histories
# ---------------------------------------------------------------------------
_ref_cache = {}


def _trace_of(net, mark, pauses):
    ev = [(w[0], ('cmd', w[2], w[3], w[4]))
          for w in world.wire_timed(net, mark, TYPES)]
    ev += [(p[0], p[1]) for p in pauses if p[0] > mark]
    ev.sort(key=lambda x: x[0])
    return [e[1] for e in ev]


def reference_trace(text, pop, tick):
    """Fresh job in a fresh environment, baseline schedule."""
    from sim import policy
    key = json.dumps([text, pop, tick], sort_keys=True)
    if key in _ref_cache:
        return _ref_cache[key]
    out = {}

    def main(sim):
        from bardolph.controller.script_job import ScriptJob
        net, pauses = _world(sim, pop, tick)
        job = ScriptJob()
        job.load_string(text)
        out['compiled'] = job.program is not None
        out['listing'] = listing(job.program)
        mark = sim.evno
        t0 = sim.now
        job.execute()
        out['trace'] = _trace_of(net, mark, pauses)
        out['offsets'] = [round(w[1] - t0, 9)
                          for w in world.wire_timed(net, mark, TYPES)]
        out['listing_after'] = listing(job.program)

    env.capture_logs()
    with world.StdoutCapture() as so, _clock_instrument():
        sim, res = world.run_sim(main, policy.ReplayChooser([]), gran='sync',
                                 step_cap=300000)
    out['stdout'] = so.text()
    out['status'] = res.status
    if len(_ref_cache) > 400:
        _ref_cache.clear()
    _ref_cache[key] = out
    return out


_PAUSES = []


def _w_pause(orig):
    def pause_for(self, delay):
        _PAUSES.append((core.current().next_event(),
                        ('pause', round(delay, 9))))
        orig(self, delay)
    return pause_for


def _w_until(orig):
    def wait_until(self, pattern):
        tbl = ''.join('1' if pattern.match(h, m) else '0'
                      for h in range(24) for m in range(60))
        _PAUSES.append((core.current().next_event(),
                        ('until', hashlib.md5(tbl.encode()).hexdigest())))
        orig(self, pattern)
    return wait_until


def _clock_instrument():
    from bardolph.lib import clock as clock_mod
    return world.Instrument(clock_mod.Clock, {'pause_for': _w_pause,
                                              'wait_until': _w_until})


def _world(sim, pop, tick):
    """Environment with a recording subclass of the real Clock."""
    from bardolph.lib import clock as clock_mod, injection, i_lib
    net, ls, ok = env.build_world(sim, pop, settings={'sleep_time': tick})
    pauses = _PAUSES
    del pauses[:]
    return net, pauses


def _exec_history(sc, chooser, violation, probes):
    from bardolph.controller.script_job import ScriptJob
    from bardolph.lib.job_control import JobControl
    import datetime
    pop, tick = sc['population'], sc['tick']
    st = {'runs': []}

    class RecJob(ScriptJob):
        stop_ev = None
        t0 = None

        def execute(self):
            self.t0 = core.current().now
            super().execute()

        def request_stop(self):
            self.stop_ev = core.current().next_event()
            super().request_stop()

    def main(sim):
        net, pauses = _world(sim, pop, tick)
        st['net'] = net
        jc = JobControl()
        jobs = [RecJob() for _ in range(sc['n_jobs'])]
        current_text = {}
        last = {}
        for step in sc['steps']:
            kind, j = step[0], step[1]
            job = jobs[j]
            if kind == 'load':
                text = sc['texts'][step[2]]
                job.load_string(text)
                if current_text.get(j) is not None and \
                        current_text[j] != text:
                    probes['reload_other_text'] = 1
                current_text[j] = text if job.program is not None else None
                st.setdefault('listing', {})[j] = listing(job.program)
                continue
            if kind == 'load_bad':
                job.load_string('set "x" begin stage row 1 hue')
                probes['reload_rejected_text'] = 1
                current_text[j] = None
                st.setdefault('listing', {})[j] = listing(job.program)
                continue
            # a run (possibly stopped)
            for b in net.bulbs:
                b.reset_state()
            mark = sim.next_event()
            job.stop_ev = None
            buf_start = len(sys.stdout.getvalue())
            agent = jc.add_job(job, 'j{}'.format(j))
            th = world.thread_of_agent(sim, agent)
            if kind == 'run_stop':
                delay, force = step[2], step[3]

                def requester(agent=agent, delay=delay, force=force):
                    sim.sleep(delay)
                    if force:
                        sim.force(core.me().name, force)
                    agent.request_stop()
                req = sim.spawn(requester, 'req')
                sim.join(req)
            if not sim.join(th, timeout=600.0 + 400 * tick):
                st['hung'] = (step, th.state, th.block_kind, th.tag)
                return
            for _ in range(100):
                if not jc.has_jobs():
                    break
                sim.sleep(tick)
            trace = _trace_of(net, mark, pauses)
            offsets = [round(w[1] - (job.t0 or 0.0), 9)
                       for w in world.wire_timed(net, mark, TYPES)]
            out = sys.stdout.getvalue()[buf_start:]
            stopped = job.stop_ev is not None
            st['runs'].append({'step': step, 'j': j,
                               'text': current_text.get(j), 'trace': trace,
                               'stdout': out, 'stopped': stopped,
                               'offsets': offsets,
                               'held_up': len(sim.stall_log),
                               'after': last.get(j),
                               'listing_after': listing(job.program)})
            last[j] = ('stopped' if stopped else 'ran', current_text.get(j))

    with world.StdoutCapture(), _clock_instrument():
        sim, out = world.run_sim(main, chooser, gran=sc['policy']['gran'],
                                 step_cap=500000, fairness=60)
    st['sim'] = sim
    st['out'] = out
    return st


def _judge_exec(sc, st, cap, violation, probes):
    pop, tick = sc['population'], sc['tick']
    if st.get('hung'):
        violation('exec/hang', 'run did not end: {}'.format(st['hung']))
        return
    for k, run in enumerate(st['runs']):
        text = run['text']
        where = 'run #{} (step {}) of job {}'.format(k + 1, run['step'],
                                                   run['j'])
        if text is None:
            if run['trace'] or run['stdout']:
                violation('exec/rejected-text-ran',
                          '{}: the job holds a rejected text but sent {} '
                          'commands / printed {!r}'.format(
                              where, len(run['trace']), run['stdout'][:80]))
            continue
        ref = reference_trace(text, pop, tick)
        if ref['status'] != 'ok' or not ref.get('compiled'):
            continue
        prev = run['after']
        aborts = '/ 0}' in text or '/ zq}' in text
        if prev is not None:
            if prev[0] == 'stopped':
                probes['rerun_after_stop'] = 1
            elif '/ 0}' in (prev[1] or '') or '/ zq}' in (prev[1] or ''):
                probes['rerun_after_abort'] = 1
            else:
                probes['rerun_after_finish'] = 1
        if 'printf' in text and aborts:
            probes['abort_inside_printf'] = 1
        if run['listing_after'] != ref['listing']:
            violation('exec/program-modified',
                      '{}: after the run the compiled program differs from '
                      'a fresh compile of the same text (first differing '
                      'instruction {}); text: {!r}'.format(
                          where, _first_diff(run['listing_after'],
                                             ref['listing']), text[:300]))
            return
        if run['stopped']:
            n = len(run['trace'])
            probes['stopped_run_prefix_checked'] = 1
            if run['trace'] != ref['trace'][:n]:
                violation('exec/stopped-run-not-prefix',
                          '{} (stopped): its {} events are not a prefix of '
                          'the fresh run\'s trace: first difference {}; '
                          'previous use of this job: {}; text: {!r}'.format(
                              where, n, _first_diff(run['trace'],
                                                    ref['trace'][:n]),
                              prev, text[:300]))
                return
            continue
        if run['trace'] != ref['trace']:
            violation('exec/trace-differs',
                      '{}: commands/delays differ from a fresh job running '
                      'the same text: {} vs {} events, first difference {}; '
                      'previous use of this job: {}; text: {!r}'.format(
                          where, len(run['trace']), len(ref['trace']),
                          _first_diff(run['trace'], ref['trace']), prev,
                          text[:300]))
            return
        # the delays themselves: every command leaves at the same offset from
        # the start of the run as in the fresh run, give or take the tick
        # phase (no stalls are injected in these histories)
        # (not for scripts that wait for a time of day: how long that takes
        # depends on the wall clock at which the run happens to start)
        if not run.get('held_up') and 'time at' not in text and \
                len(run['offsets']) == len(ref['offsets']):
            for i, (a, b) in enumerate(zip(run['offsets'], ref['offsets'])):
                if a < b - (tick + 0.02) or a > b + 2 * tick + 0.05:
                    violation('exec/timing-differs',
                              '{}: command #{} left {:.4f} s after the run '
                              'started, in a fresh job it leaves after {:.4f} '
                              's (tick {}); previous use of this job: {}; '
                              'text: {!r}'.format(where, i + 1, a, b, tick,
                                                  prev, text[:300]))
                    return
        if run['stdout'] != ref['stdout']:
            violation('exec/output-differs',
                      '{}: printed {!r}, a fresh job prints {!r}; previous '
                      'use of this job: {}; text: {!r}'.format(
                          where, run['stdout'][:200], ref['stdout'][:200],
                          prev, text[:300]))
            return


def _first_diff(a, b):
    for k in range(max(len(a), len(b))):
        x = a[k] if k < len(a) else None
        y = b[k] if k < len(b) else None
        if x != y:
            return (k, x, y)
    return None


# ---------------------------------------------------------------------------
# ---------------------------------------------------------------------------
# Canary: fresh objects must also be independent of what OTHER objects did
# earlier in the process (state kept at class or module level).  Taken once in
# the pristine process and again after every history.
# ---------------------------------------------------------------------------
_CANARY = None
_CANARY_TEXTS = [
    'println [floor 2.5] println [sqrt 16] println [round 7.6]',
    'define k 3 assign v {k * 2} printf "{} {} {hue}\\n" v k units raw '
    'println hue units logical hue 120 println hue',
    'define rt with a begin println {a + 1} end rt 4 repeat 2 begin print 5 '
    'end println 6',
    'time at 10:1* or *:30 time 0 println "p"',
    'assign floor 3 println floor',
]


def _canary_now():
    from sim import policy
    from bardolph.lib import injection
    from bardolph.runtime import runtime_module
    from bardolph.parser.parse import Parser
    from bardolph.controller.script_job import ScriptJob
    out = []
    injection.configure()
    runtime_module.configure()
    for t in _CANARY_TEXTS:
        out.append(compile_outcome(Parser(), t))
    cap = env.capture_logs()

    def main(sim):
        env.build_world(sim, [], settings={'sleep_time': 0.1},
                        discover=False)
        for t in _CANARY_TEXTS:
            job = ScriptJob()
            job.load_string(t)
            job.execute()
            job.execute()           # a second run of the same fresh job

    with world.StdoutCapture() as so:
        sim, res = world.run_sim(main, policy.ReplayChooser([]), gran='sync',
                                 step_cap=50000)
    out.append(('stdout', so.text(), res.status))
    out.append(('errors', tuple(m for lv, m in cap.records
                                if lv in ('ERROR', 'CRITICAL'))))
    return out


def execute(scenario, chooser):
    global _CANARY
    if _CANARY is None:
        _CANARY = _canary_now()
    res = _execute(scenario, chooser)
    now = _canary_now()
    if now != _CANARY and not res.get('harness_error'):
        k = next(i for i in range(len(now)) if now[i] != _CANARY[i])
        res['violations'].append({
            'sig': 'C17/process-state/fresh-objects-depend-on-history',
            'msg': 'after this history, FRESH Parser/ScriptJob objects give a '
                   'different result for a fixed canary script than they gave '
                   'when the process started: item {}: {!r} vs {!r}'.format(
                       k, now[k], _CANARY[k])[:900]})
        _CANARY = now       # report once per change
    return res


def _execute(scenario, chooser):
    sc = scenario
    cap = env.capture_logs()
    viol = []
    probes = {}

    def violation(sig, msg):
        if not any(v['sig'] == 'C17/' + sig for v in viol):
            viol.append({'sig': 'C17/' + sig, 'msg': msg})

    hist_digest = hashlib.sha256(json.dumps(
        {k: v for k, v in sc.items() if k != 'policy'},
        sort_keys=True).encode()).hexdigest()
    res = {'violations': viol, 'digest': hist_digest, 'switch_digest': '',
           'sim_time': 0.0, 'steps': 0, 'faults': {}, 'probes': probes,
           'deviations': [], 'harness_error': None,
           'shape': sc['family']}
    if sc['family'] == 'xproc':
        _cross_process(sc, violation, probes, res)
        res['nontrivial'] = True
        res['shape'] = 'xproc:{}'.format(len(sc['texts']))
        res['sample'] = {'family': 'xproc',
                         'texts': [t[:120] for t in sc['texts']]}
        return res
    if sc['family'] == 'compile':
        _compile_history(sc, violation, probes)
        res['nontrivial'] = len(sc['texts']) >= 2
        res['shape'] = 'compile:{}'.format(len(sc['texts']))
        res['faults'] = {'rejected_compile': probes.pop('_rejected', 0)}
        res['sample'] = {'family': 'compile',
                         'texts': [t[:120] for t in sc['texts']]}
        return res
    st = _exec_history(sc, chooser, violation, probes)
    sim, out = st['sim'], st['out']
    res.update({'digest': hashlib.sha256(
        (hist_digest + sim.digest()).encode()).hexdigest(),
        'switch_digest': sim.switch_digest(), 'sim_time': sim.now,
        'steps': sim.steps, 'deviations': list(sim.deviations)})
    res['shape'] = 'exec:' + ','.join(s[0] for s in sc['steps'])
    res['faults'] = {
        'stop_request': sum(1 for s in sc['steps'] if s[0] == 'run_stop'),
        'rejected_load': sum(1 for s in sc['steps'] if s[0] == 'load_bad'),
        'runtime_abort_scripts': sum(1 for t in sc['texts'] if '/ 0}' in t
                                     or '/ zq}' in t),
        'thread_preemption': sim.switches}
    if out.status in ('deadlock', 'budget'):
        violation('exec/hang', '{} {}'.format(
            out.detail, world.fmt_stacks(out.stacks)))
        return res
    if out.status != 'ok':
        res['harness_error'] = 'simulation ended {}: {} {}'.format(
            out.status, out.detail, world.fmt_stacks(out.stacks))
        return res
    _judge_exec(sc, st, cap, violation, probes)
    res['nontrivial'] = len(st['runs']) >= 2
    res['sample'] = {'family': 'exec', 'steps': sc['steps'],
                     'texts': [t[:160] for t in sc['texts']],
                     'runs': [(r['step'][0], r['stopped'], len(r['trace']))
                              for r in st['runs']]}
    return res


if __name__ == '__main__':
    from sim import driver
    sys.exit(driver.main(sys.modules[__name__]))
