"""C10 - delays run on one time line from script start; time-of-day waits
restart it; zero delays never block; raw time is milliseconds.

Real: Clock (with its clock thread, on virtual time), Machine._wait and unit
handling, parser, VM, job thread, LightSet/lifxlan for the commands.
Instrumentation is a recording subclass of the real Clock bound through the
repo's own injection container; every method calls the real implementation.
"""
import copy
import datetime
import sys

from sim import core, env, world

PROP = 'C10'
LEVEL = 'exploration'
RULE = ('seeded scenarios: a straight-line script of 2-8 steps, each step '
        '`time d` (d in {0, fractional, tick multiples +- epsilon, large}, in '
        'logical seconds or after `units raw` in milliseconds) or `time at '
        'H:M` (0-3 minutes ahead of a drawn start time of day) followed by '
        '1-2 uniquely tagged commands or an explicit `wait`; work between '
        'delays is injected as send stalls / delayed `get` replies shorter or '
        'longer than the following delay; tick length drawn per run; the '
        'clock-thread vs script-thread interleaving (incl. tick and arrival '
        'at the same instant, in either order) and stalls are decided by the '
        'seeded scheduler. Non-trivial: at least one delay actually blocked '
        'on a tick; distinct = distinct event-log digest.')
ASSUMPTIONS = [
    'one process clock: time.time, datetime.now and socket time-outs all '
    'read the simulated clock',
    'lateness bounds are asserted only for delays during which no stall was '
    'applied to the script or clock thread',
    'the first instant at which a time pattern matches is computed with the '
    "repo's own TimePattern.match (what patterns mean is C11, not claimed)",
]
COMPONENTS = {
    'real': ['bardolph/lib/clock.py', 'bardolph/vm/machine.py',
             'bardolph/controller/units.py', 'bardolph/parser/*',
             'bardolph/lib/job_control.py', 'bardolph/controller/'
             'script_job.py', 'light_set / lifx_lan_* / lifxlan'],
    'stub': ['thread scheduling', 'clock', 'UDP network', 'bulb firmware'],
}
PROBES = ['hour_boundary_watched', 'delay_blocked_on_tick', 'behind_schedule_no_block',
          'tick_missed_between_test_and_wait', 'time_of_day_wait_blocked',
          'time_of_day_already_matching', 'zero_delay', 'raw_units_delay',
          'work_longer_than_delay', 'due_coincides_with_tick', 'stall']
WALL_CAP = {'quick': 150, 'thorough': 1500}
EPS = 1e-6
AMBIG = 2e-6
TOL = 0.002      # other threads' datagrams cost virtual time


def runs_for(tier):
    return 9000 if tier == "quick" else 200000


# ---------------------------------------------------------------------------
def gen_named(rng):
    """Time-of-day patterns held in a macro (the parser accepts literals and
    macros after `time at`, not variables) and used more than
    once: `time at tp0 or B` ... `time at tp0`.  Patterns `*:*D` recur every
    ten minutes, so the second wait stays short."""
    from sim import policy
    tick = rng.choice([1.0, 1.0, 7.0])
    pop = [{'label': 'Top', 'product': 27, 'group': 'G', 'location': 'L',
            'latency': 0.001},
           {'label': 'Lamp', 'product': 27, 'group': 'G', 'location': 'L',
            'latency': 0.004}]
    hour, minute = rng.randint(0, 23), rng.randint(0, 40)
    second = rng.choice([0.0, 3.2, 41.3])
    est_min = minute + (1 if second + 1.2 < 60 else 2)
    d1 = (est_min + rng.choice([0, 1])) % 10
    if d1 == 9:
        d1 = 0          # minute 59 never matches on this tree (C11)
    k = rng.choice([1, 2, 3, 5])
    d2 = (d1 + k) % 10
    if d2 == 9:
        d2 = (d2 + 1) % 10
    named = {'tp0': ['define', '*:*{}'.format(d1)]}
    alt = '*:*{}'.format(d2)
    alt_name = None
    if rng.random() < 0.4:
        alt_name = 'tp1'
        named['tp1'] = ['define', alt]
    steps = []
    first = {'at': named['tp0'][1], 'at_name': 'tp0', 'raw': False,
             'what': rng.choice(['cmd', 'and'])}
    if rng.random() < 0.8:
        first['at_or'] = [alt]
        first['at_or_names'] = [alt_name]
        first['at_or_first'] = rng.random() < 0.4
    steps.append(first)
    for _ in range(rng.randint(0, 2)):
        steps.append({'d': rng.choice([1.0, 2.75, tick * 2, 45.0, 70.0]),
                      'raw': False, 'what': rng.choice(['cmd', 'cmd2'])})
    if rng.random() < 0.3 and alt_name:
        steps.append({'at': alt, 'at_name': alt_name, 'raw': False,
                      'what': 'cmd'})
        steps.append({'d': 1.0, 'raw': False, 'what': 'cmd'})
    steps.append({'at': named['tp0'][1], 'at_name': 'tp0', 'raw': False,
                  'what': rng.choice(['cmd', 'and'])})
    steps.append({'d': rng.choice([1.0, tick * 1.5]), 'raw': False,
                  'what': 'cmd'})
    pol = policy.draw_policy(rng, est_len=500, stalls=True)
    pol['p_stall'] = min(pol['p_stall'], 0.02)
    return {'policy': pol, 'population': pop, 'tick': tick,
            'start': [hour, minute, second], 'steps': steps, 'twice': False,
            'bystander': None, 'named': named}


def gen_edge(rng):
    """A time-of-day wait that is pending across the top of an hour, for a
    pattern naming the hour that is ending and minute 00: it must not end
    before tomorrow.  Reading the wall clock costs a little virtual time, so
    consecutive reads straddle the boundary in some runs."""
    from sim import policy
    tick = rng.choice([0.25, 0.5, 1.0])
    hour = rng.randint(0, 23)
    pop = [{'label': 'Top', 'product': 27, 'group': 'G', 'location': 'L',
            'latency': 0.001}]
    pat = rng.choice(['{}:00', '{}:0*', '{}:*0']).format(hour)
    pol = policy.draw_policy(rng, est_len=300, stalls=True)
    pol['p_stall'] = min(pol['p_stall'], 0.02)
    return {'policy': pol, 'population': pop, 'tick': tick,
            'start': [hour, 59, rng.choice([44.0, 50.3, 55.1])],
            'steps': [{'at': pat, 'what': 'cmd', 'raw': False}],
            'twice': False, 'bystander': None,
            'edge': {'read_cost': rng.choice([0.0004, 0.03, tick * 0.4,
                                              tick * 0.9]),
                     'watch': 30.0}}


def gen(rng, tier, index):
    from sim import policy
    k = rng.random()
    if k < 0.05:
        return gen_named(rng)
    if k < 0.08:
        return gen_edge(rng)
    tick = rng.choice([0.01, 0.05, 0.1, 0.5, 1.0, 7.0])
    pop = [{'label': 'Top', 'product': 27, 'group': 'G', 'location': 'L',
            'latency': rng.choice([0.001, 0.02])},
           {'label': 'Lamp', 'product': 27, 'group': 'G', 'location': 'L',
            'latency': 0.004}]
    hour, minute = rng.randint(0, 23), rng.randint(0, 54)
    second = rng.choice([0.0, 3.2, 41.3, 58.9, 59.95])
    n_steps = rng.randint(2, 8)
    steps = []
    raw = False
    budget_ticks = 600           # keep the number of simulated ticks bounded
    pattern_active = False
    est = hour * 3600 + minute * 60 + second + 1.2   # discovery ~1.1 s
    cur_d = 0
    cur_mode = 'logical'
    for i in range(n_steps):
        st = {}
        kind = rng.choice(['d', 'd', 'd', 'd', 'at', 'zero', 'keep'])
        if pattern_active and kind in ('keep', 'zero') and i > 0:
            kind = 'd'
        if kind == 'at' and budget_ticks * tick < 70:
            kind = 'd'
        if kind == 'at':
            ahead = rng.choice([0, 1, 1, 2])
            if ahead == 0 and not 5 <= est % 60 <= 35:
                ahead = 1
            cur_minute = int(est // 60)
            if (cur_minute + ahead) % 60 == 59:
                ahead += 1        # minute 59 never matches on this tree (C11)
            cur_minute += ahead
            if ahead:
                est = cur_minute * 60 + 0.5
            hh, mm = (cur_minute // 60) % 24, cur_minute % 60
            form = rng.choice(['exact', 'exact', 'hour_star', 'min_digit'])
            if form == 'exact':
                pat = '{}:{:02d}'.format(hh, mm)
            elif form == 'hour_star':
                pat = '*:{:02d}'.format(mm)
            else:
                pat = '{}:{}*'.format(hh, mm // 10)
            st['at'] = pat
            if rng.random() < 0.35:
                # alternatives that cannot match within the run: another
                # hour (exact) - the union must still restart at `pat`
                other_h = (hh + rng.choice([5, 11, 17])) % 24
                st['at_or'] = ['{}:{:02d}'.format(other_h, rng.randint(0, 58))
                               for _ in range(rng.randint(1, 2))]
                if rng.random() < 0.5:
                    st['at_or_first'] = True
            budget_ticks -= int((ahead + 1) * 60 / tick)
            pattern_active = True
        elif kind == 'zero':
            st['d'] = 0
        elif kind == 'd':
            if rng.random() < 0.25 and not pattern_active:
                mode = rng.choice([m for m in ('raw', 'logical', 'rgb')
                                   if m != cur_mode])
                cur_mode = mode
                raw = mode == 'raw'
                st['units'] = mode
            choices = [tick * 0.3, tick, tick * 2, tick * 2 - 1e-4,
                       tick * 3 + 1e-4, tick * 1.5, 0.25, 1.0, 2.75]
            if budget_ticks > 200:
                choices += [tick * 40, 61.0 if tick >= 0.5 else tick * 25]
            d = rng.choice(choices)
            d = round(d, 4)
            budget_ticks -= int(d / tick) + 1
            st['d'] = d
            cur_d = d
            pattern_active = False
        elif kind == 'keep' and not pattern_active and rng.random() < 0.45:
            # the time register keeps its value across a units switch (the
            # VM converts it, the delay stays what it was)
            mode = rng.choice([m for m in ('raw', 'logical', 'rgb')
                               if m != cur_mode])
            cur_mode = mode
            raw = mode == 'raw'
            st['units'] = mode
            if rng.random() < 0.3:
                st['units_then'] = rng.choice(
                    [m for m in ('raw', 'logical', 'rgb') if m != mode])
                cur_mode = st['units_then']
                raw = cur_mode == 'raw'
        # 'keep': the time register keeps its value
        st['raw'] = raw
        what = rng.choice(['cmd', 'cmd', 'cmd2', 'and', 'wait_cmd', 'get',
                           'loop', 'group'])
        if 'd' in st and st['d'] and rng.random() < 0.15:
            st['via_var'] = True      # `assign dv <d>  time dv`
        if what == 'loop':
            st['n'] = rng.choice([2, 3])
        if 'at' in st:
            what = rng.choice(['cmd', 'and'])
        st['what'] = what
        if rng.random() < 0.35 and 'at' not in st:
            st['work'] = round(rng.choice([tick * 0.4, tick * 1.3,
                                           tick * 3.7, 0.05, 1.2]), 4)
            if tick >= 0.5 and budget_ticks > 300 and rng.random() < 0.12:
                st['work'] = rng.choice([650.0, 1300.0])   # a long hold-up
                budget_ticks -= int(st['work'] / tick)
            est += st['work']
        if kind == 'zero':
            cur_d = 0
        if 'at' not in st:
            n_waits = 2 if what in ('cmd2', 'wait_cmd') else \
                st.get('n', 1)
            est += n_waits * (cur_d + 2 * tick) if cur_d else 0
            budget_ticks -= (n_waits - 1) * int(cur_d / tick)
            if what == 'get':
                est += 1.0
        steps.append(st)
        if budget_ticks < 0:
            break
    has_at = any('at' in s for s in steps)
    twice = (not has_at) and rng.random() < 0.25
    bystander = None
    if rng.random() < 0.25:
        # another script alive at the same time, as a background job
        bystander = {'d': rng.choice([tick * 1.5, 0.3, 1.0, 2 * tick]),
                     'after': rng.choice([0.0, tick * 0.7, 0.45, 1.3])}
    pol = policy.draw_policy(rng, est_len=500, stalls=True)
    if any('at' in s for s in steps):
        # a wait held up past its whole matching minute would last a day
        pol['p_stall'] = min(pol['p_stall'], 0.02)
    return {'policy': pol,
            'population': pop, 'tick': tick, 'start': [hour, minute, second],
            'steps': steps, 'twice': twice, 'bystander': bystander}


def build_script(sc):
    """Returns (text, waits) where waits is the expected sequence of WAIT
    executions: dicts {kind: 'd'|'at'|'zero', d|pat, tag of the command
    that follows or None, work}."""
    lines = []
    waits = []
    tag = 0
    cur = ('d', 0.0)       # time register starts at 0
    raw = False
    plan = []
    counts = {}

    def cmd(target_text, targets):
        nonlocal tag
        tag += 1
        lines.append('kelvin {} set {}'.format(1500 + tag, target_text))
        return tag

    for name, (how, pat) in sorted((sc.get('named') or {}).items()):
        lines.append('{} {} {}'.format(how, name, pat))
    for st in sc['steps']:
        if st.get('units'):
            lines.append('units ' + st['units'])
            raw = st['units'] == 'raw'
            if st.get('units_then'):
                lines.append('units ' + st['units_then'])
                raw = st['units_then'] == 'raw'
        if 'at' in st:
            pats = [st['at']]
            shown = [st.get('at_name') or st['at']]
            if st.get('at_or'):
                alts = [n or q for n, q in zip(
                    st.get('at_or_names') or [None] * len(st['at_or']),
                    st['at_or'])]
                pats = (st['at_or'] + pats) if st.get('at_or_first') \
                    else (pats + st['at_or'])
                shown = (alts + shown) if st.get('at_or_first') \
                    else (shown + alts)
            lines.append('time at ' + ' or '.join(shown))
            cur = ('at', pats)
        elif 'd' in st:
            d = st['d']
            shown = int(round(d * 1000)) if raw else d
            if st.get('via_var'):
                lines.append('assign dv {}'.format(shown))
                lines.append('time dv')
            else:
                lines.append('time {}'.format(shown))
            if raw:
                d = int(round(d * 1000)) / 1000.0
            cur = ('d', d)
        what = st['what']
        work = st.get('work')

        def add_wait(t, devs):
            w = {'kind': cur[0], 'val': cur[1], 'tag': t, 'devs': devs}
            waits.append(w)
            return w

        if what == 'cmd':
            t = cmd('"Top"', [0])
            w = add_wait(t, [0])
        elif what == 'cmd2':
            t = cmd('"Top"', [0])
            add_wait(t, [0])
            t = cmd('"Lamp"', [1])
            w = add_wait(t, [1])
        elif what == 'and':
            t = cmd('"Top" and "Lamp"', [0, 1])
            w = add_wait(t, [0, 1])
        elif what == 'group':
            t = cmd('group "G"', [0, 1])
            w = add_wait(t, [0, 1])
        elif what == 'loop':
            # the same WAIT + command executed n times
            tag += 1
            lines.append('repeat {} begin kelvin {} set "Top" end'.format(
                st['n'], 1500 + tag))
            first = None
            for _ in range(st['n']):
                w = add_wait(tag, [0])
                first = first or w
            w = first       # a send stall hits the first datagram of the tag
        elif what == 'wait_cmd':
            lines.append('wait')
            add_wait(None, [])
            t = cmd('all', [0, 1])
            w = add_wait(t, [0, 1])
        else:   # get: a read that can be slow, then a command
            lines.append('get "Lamp" hue 10 saturation 20 brightness 30')
            t = cmd('"Top"', [0])
            w = add_wait(t, [0])
            w['get'] = True
            counts['get'] = counts.get('get', 0) + 1
            if work:
                plan.append({'kind': 'delay', 'device': 1,
                             'request': 'LightGet',
                             'occurrence': counts['get'],
                             'arg': min(work, 0.9)})
                work = None
            if False:
                pass
        if work:
            # the last command of this step is slow to send: work that the
            # *next* delay has to absorb
            dev = w['devs'][-1]
            plan.append({'kind': 'send_stall', 'device': dev,
                         'request': 'LightSetColor', 'tagk': 1500 + w['tag'],
                         'arg': work})
            w['work'] = work
    return '\n'.join(lines), waits, plan


def shrink(sc):
    for i in range(len(sc['steps']) - 1, -1, -1):
        if len(sc['steps']) > 1:
            c = copy.deepcopy(sc)
            del c['steps'][i]
            yield c
    for i, st in enumerate(sc['steps']):
        if st.get('work'):
            c = copy.deepcopy(sc)
            del c['steps'][i]['work']
            yield c
        if st['what'] != 'cmd':
            c = copy.deepcopy(sc)
            c['steps'][i]['what'] = 'cmd'
            yield c
    if sc['policy']['p_stall']:
        c = copy.deepcopy(sc)
        c['policy']['p_stall'] = 0.0
        yield c


# ---------------------------------------------------------------------------
def execute(scenario, chooser):
    from bardolph.lib import clock as clock_mod, injection, i_lib
    from bardolph.lib.job_control import JobControl
    from bardolph.controller.script_job import ScriptJob
    sc = scenario
    cap = env.capture_logs()
    viol = []
    rec = []
    st = {}
    tick = sc['tick']
    text, waits, plan = build_script(sc)

    def violation(sig, msg):
        if not any(v['sig'] == 'C10/' + sig for v in viol):
            viol.append({'sig': 'C10/' + sig, 'msg': msg})

    clock_ids = {}

    def _cid(clk):
        # which Clock object (index in order of first use)
        return clock_ids.setdefault(id(clk), (len(clock_ids), clk))[0]

    def _who():
        me = core.me()
        return me.name if me is not None else '?'

    def w_reset(orig):
        def reset(self):
            orig(self)
            s = core.current()
            # the origin the real clock took, obtained through its own et()
            # (a stall may separate the real assignment from this line)
            elapsed = self.et()     # first et(), then the time: nothing
            origin = s.now - elapsed    # can pre-empt between these two
            rec.append(('reset', origin, len(s.log), _cid(self), _who()))
        return reset

    def w_pause(orig):
        def pause_for(self, delay):
            s = core.current()
            a, la = s.now, len(s.log)
            orig(self, delay)
            rec.append(('pause', a, delay, s.now, la, len(s.log), _cid(self), _who()))
        return pause_for

    def w_until(orig):
        def wait_until(self, pattern):
            s = core.current()
            a, la = s.now, len(s.log)
            orig(self, pattern)
            rec.append(('until', a, pattern, s.now, la, len(s.log), _cid(self), _who()))
        return wait_until

    def w_fire(orig):
        def fire(self):
            rec.append(('tick', core.current().now, _cid(self), _who()))
            orig(self)
        return fire

    clock_hooks = {'reset': w_reset, 'pause_for': w_pause,
                   'wait_until': w_until, 'fire': w_fire}

    def main(sim):
        # send stalls are keyed by the command's kelvin tag: resolve them to
        # (device, occurrence) lazily through a net hook
        net, ls, ok = env.build_world(sim, sc['population'],
                                      settings={'sleep_time': tick})
        st['net'] = net
        tagged = {r['tagk']: r for r in plan if 'tagk' in r}
        net.plan = [r for r in plan if 'tagk' not in r]
        orig_send = net.send

        def send(sock, data, addr):
            from sim.net import decode_cached
            req = decode_cached(data)
            if req.name == 'LightSetColor':
                r = tagged.get(req.payload['color'][3])
                if r is not None and r.get('device') is not None:
                    b = net.by_ip.get(addr[0])
                    if b is not None and b.idx == r['device'] and \
                            not r.get('done'):
                        r['done'] = True
                        net.fire('send_stall')
                        sim.sleep(r['arg'])
            return orig_send(sock, data, addr)
        net.send = send
        net.counts.clear()
        st['mark'] = sim.evno
        jc = JobControl()
        job = ScriptJob.from_string(text)
        st['compiled'] = job.program is not None
        if not st['compiled']:
            st['errors'] = job.compile_errors
            return
        if sc.get('edge'):
            sim.clock_read_cost = sc['edge']['read_cost']
        agent = jc.add_job(job, 'main')
        th = world.thread_of_agent(sim, agent)
        st['job_threads'] = [th.name]
        if sc.get('edge'):
            # watch the pending wait across the hour boundary, then end it
            sim.sleep(sc['edge']['watch'])
            st['watched_until'] = sim.now
            st['wire_then'] = world.wire_timed(net, st['mark'],
                                               ('LightSetColor',))
            agent.request_stop()
            sim.join(th)
            st['ended'] = sim.now
            return
        by = sc.get('bystander')
        if by:
            sim.sleep(by['after'])
            d = by['d']
            bjob = ScriptJob.from_string(
                'time {} kelvin 3001 set "Lamp" kelvin 3002 set "Lamp"'
                .format(d))
            bagent = jc.spawn_job(bjob, 'bystander')
            st['bystander_thread'] = world.thread_of_agent(sim, bagent).name
        sim.join(th)
        if sc.get('twice'):
            # the same job object once more, right away
            st['mark2'] = sim.next_event()
            agent2 = jc.add_job(job, 'main')
            th2 = world.thread_of_agent(sim, agent2)
            st['job_threads'].append(th2.name)
            sim.join(th2)
        if by:
            sim.join(world.thread_of_agent(sim, bagent))
        st['ended'] = sim.now

    start = sc['start']
    start_dt = datetime.datetime(2024, 3, 5, start[0], start[1],
                                 int(start[2]), int((start[2] % 1) * 1e6))
    with world.StdoutCapture(), world.Instrument(clock_mod.Clock,
                                                 clock_hooks):
        sim, out = world.run_sim(main, chooser, gran=sc['policy']['gran'],
                                 step_cap=400000, start_dt=start_dt,
                                 stall=True, max_stall=max(2.0, 2 * tick),
                                 epoch=1000.0, fairness=40)
    res = {'violations': viol, 'digest': sim.digest(),
           'switch_digest': sim.switch_digest(), 'sim_time': sim.now,
           'steps': sim.steps, 'faults': {}, 'probes': dict(sim.stats),
           'deviations': list(sim.deviations), 'harness_error': None,
           'shape': '{}:{}'.format(
               tick, ','.join(('at' if 'at' in s else
                               'zero' if s.get('d') == 0 else
                               'd' if 'd' in s else 'keep') + ':' + s['what']
                              for s in sc['steps']))}
    probes = res['probes']
    if not st.get('compiled', True):
        res['harness_error'] = 'script rejected: {}\n{}'.format(
            st.get('errors'), text)
        return res
    if out.status in ('deadlock', 'budget'):
        violation('hang', 'script did not finish: {} {}'.format(
            out.detail, world.fmt_stacks(out.stacks)))
        return res
    if out.status != 'ok':
        res['harness_error'] = 'simulation ended {}: {} {}\n{}'.format(
            out.status, out.detail, world.fmt_stacks(out.stacks), text)
        return res
    if any('Machine stopped due to' in m for _lv, m in cap.records):
        res['harness_error'] = 'script aborted: {}\n{}'.format(
            [m for _lv, m in cap.records if 'Machine stopped' in m][0], text)
        return res
    if st['net'] is not None:
        res['faults'] = dict(st['net'].fired)
    res['faults']['stall'] = sim.stats.get('stall', 0)
    res['faults']['spin_advance'] = sim.stats.get('spin_advance', 0)
    res['faults']['thread_preemption'] = sim.switches
    if sc.get('edge'):
        probes['hour_boundary_watched'] = 1
        if st.get('wire_then'):
            w = st['wire_then'][0]
            violation('time-of-day/early',
                      'a wait for {} was pending at {:02d}:59; the awaited '
                      'time does not arrive before tomorrow, yet the command '
                      'behind it reached its device at t={:.6f} ({})'.format(
                          sc['steps'][0]['at'], sc['start'][0], w[1],
                          start_dt + datetime.timedelta(seconds=w[1])))
        return res
    marks = [st['mark'], st.get('mark2')]
    for k, jt in enumerate(st['job_threads']):
        st['job_thread'] = jt
        mine = [r for r in rec if r[0] != 'tick' and r[-1] == jt]
        my_clocks = {r[-2] for r in mine}
        ticks = [r for r in rec if r[0] == 'tick' and r[-2] in my_clocks]
        st['tick_threads'] = {r[-1] for r in ticks}
        lo = marks[k]
        hi = marks[k + 1] if k + 1 < len(marks) and marks[k + 1] else None
        if not any(r[0] == 'reset' for r in mine):
            violation('time-line-not-restarted',
                      'run #{} of the script never (re)started its time '
                      'line'.format(k + 1))
            break
        judge(sc, text, waits, mine + ticks, sim, st, start_dt, violation,
              probes, res, (lo, hi))
        if viol:
            break
    if st.get('bystander_thread') and not viol:
        _judge_bystander(sc, rec, st, violation)
    return res


def _first_match(pattern_text, start_dt, t_from, horizon=180000.0):
    """First virtual instant >= t_from at which the wall clock matches."""
    from bardolph.lib.time_pattern import TimePattern
    texts = pattern_text if isinstance(pattern_text, list) else [pattern_text]
    # what `A or B` denotes is C11's business: follow the repo's own union
    pat = TimePattern.from_string(texts[0])
    for t in texts[1:]:
        pat.union(TimePattern.from_string(t))
    now = start_dt + datetime.timedelta(seconds=t_from)
    if pat.match(now.hour, now.minute):
        return t_from
    # next minute boundaries
    base = now.replace(second=0, microsecond=0)
    for k in range(1, int(horizon // 60) + 2):
        cand = base + datetime.timedelta(minutes=k)
        if pat.match(cand.hour, cand.minute):
            return (cand - start_dt).total_seconds()
    return None


def _judge_bystander(sc, rec, st, violation):
    """The background script's own two delays are never early either."""
    jt = st['bystander_thread']
    resets = [r for r in rec if r[0] == 'reset' and r[-1] == jt]
    if not resets:
        violation('time-line-not-restarted',
                  'the background script never started a time line')
        return
    t0 = resets[0][1]
    d = sc['bystander']['d']
    wire = world.wire_timed(st['net'], st['mark'], ('LightSetColor',))
    for k, tag in enumerate((3001, 3002)):
        got = [w for w in wire if dict(w[4])['color'][3] == tag]
        if not got:
            violation('command-missing',
                      'background script: command {} never sent'.format(tag))
            return
        due = t0 + d * (k + 1)
        if got[0][1] < due - EPS:
            violation('early',
                      'background script: command #{} reached its device at '
                      't={:.6f}, before its due time {:.6f} (start {:.6f} + '
                      '{} x {})'.format(k + 1, got[0][1], due, t0, k + 1, d))
            return


def judge(sc, text, waits, rec, sim, st, start_dt, violation, probes, res,
          window=(None, None)):
    tick = sc['tick']
    job = st['job_thread']
    log = sim.log
    # stalls (and spin advances) that held up the script or the clock thread
    stalls = []
    for (_idx, t0, t1, names) in sim.stall_log:
        if any(n == job or n in st.get('tick_threads', ()) or
               n.startswith('clock') for n in names):
            stalls.append((t0, t1))

    def stalled(a, b):
        return any(t0 < b + EPS and t1 > a - EPS for t0, t1 in stalls)

    # ticks that found the script waiting: event.set with >= 1 waiter
    wake_ticks = sorted({round(r[1], 7) for r in log
                         if r[3] == 'event.set' and r[5] >= 1
                         and r[2] in st.get('tick_threads', ())})
    all_ticks = sorted(r[1] for r in rec if r[0] == 'tick')

    def blocks_between(la, lb):
        return sum(1 for r in log[la:lb]
                   if r[3] == 'event.block' and r[2] == job)

    calls = [r for r in rec if r[0] in ('pause', 'until', 'reset')]
    resets = [r for r in calls if r[0] == 'reset']
    if not resets:
        res['harness_error'] = 'clock never reset'
        return
    t0 = resets[0][1]
    acc = 0.0
    ci = calls.index(resets[0]) + 1
    wire = world.wire_timed(st['net'], st['mark'], ('LightSetColor',))
    lo_ev, hi_ev = window
    by_tag = {}
    for w in wire:
        if lo_ev is not None and w[0] <= lo_ev:
            continue
        if hi_ev is not None and w[0] >= hi_ev:
            continue
        by_tag.setdefault(dict(w[4])['color'][3], []).append(w)
    prev_cmd_time = None
    prev_wait_kind = None
    blocked_any = False
    used = {}
    for wi, w in enumerate(waits):
        where = 'wait #{} ({} {})'.format(wi + 1, w['kind'], w['val'])
        if w['kind'] == 'd' and w['val'] > 0:
            if ci >= len(calls) or calls[ci][0] != 'pause':
                violation('wait-sequence',
                          '{}: expected a timed delay, the clock saw {}; '
                          'script:\n{}'.format(
                              where, calls[ci][:3] if ci < len(calls)
                              else None, text))
                return
            _k, a, delay, r, la, lb = calls[ci][:6]
            ci += 1
            if abs(delay - w['val']) > 1e-9:
                violation('delay-value',
                          '{}: the clock was asked for {} s, the script says '
                          '{} s ({}); script:\n{}'.format(
                              where, delay, w['val'],
                              'raw milliseconds' if any(
                                  s.get('raw') for s in sc['steps'])
                              else 'seconds', text))
                return
            acc += w['val']
            due = t0 + acc
            nb = blocks_between(la, lb)
            if r < due - EPS:
                violation('early',
                          '{}: ended at t={:.6f}, {:.6f} s before its due '
                          'time {:.6f} (script start {:.6f} + {:.6f}); tick '
                          '{}'.format(where, r, due - r, due, t0, acc, tick))
            if abs(a - due) <= AMBIG:
                pass        # arrival coincides with the due instant
            elif a >= due - EPS:
                probes['behind_schedule_no_block'] = 1
                if nb > 0 or (r > a + TOL and not stalled(a, r)):
                    violation('late/behind-schedule-blocked',
                              '{}: the script arrived at t={:.6f}, already '
                              'past the due time {:.6f}, yet the delay '
                              'blocked {} time(s) and ended at {:.6f}'.format(
                                  where, a, due, nb, r))
            else:
                if nb > 0:
                    blocked_any = True
                    probes['delay_blocked_on_tick'] = 1
                if any(abs(tk - due) < 1e-9 for tk in all_ticks):
                    probes['due_coincides_with_tick'] = 1
                if not stalled(a, max(r, due + 2 * tick)):
                    # a tick up to TOL before the due instant can end the
                    # delay too: other threads' datagrams make (virtual) time
                    # pass between the wake-up and the script's look at the
                    # clock; one that coincides with the due instant may or
                    # may not count (floating point)
                    expect = [tk for tk in wake_ticks if tk >= due - TOL
                              and tk > a - EPS]
                    zone = [tk for tk in expect if tk <= due + AMBIG]
                    ok_times = zone + [tk for tk in expect
                                       if tk > due + AMBIG][:1]
                    if r < due - EPS or \
                            not any(-EPS <= r - x <= TOL for x in ok_times):
                        first_any = [tk for tk in all_ticks if tk >= due - EPS]
                        if expect and first_any and \
                                expect[0] > first_any[0] + EPS:
                            probes['tick_missed_between_test_and_wait'] = 1
                        violation('late/not-first-tick',
                                  '{}: due at {:.6f}, arrived {:.6f}; ended '
                                  'at {:.6f} but the first tick at or after '
                                  'the due time that found the script '
                                  'waiting was {}; tick {}'.format(
                                      where, due, a, r,
                                      expect[0] if expect else None, tick))
                    elif expect:
                        first_any = [tk for tk in all_ticks if tk >= due - EPS]
                        if first_any and expect[0] > first_any[0] + EPS:
                            probes['tick_missed_between_test_and_wait'] = 1
                    if r > due + 2 * tick + TOL:
                        violation('late/two-ticks',
                                  '{}: ended {:.6f} s after its due time, '
                                  'more than two ticks of {} s, with no '
                                  'stall'.format(where, r - due, tick))
            arrival_floor = due
            prev_wait_kind = 'd'
        elif w['kind'] == 'd':
            # zero delay: must not block (consulting the clock is allowed)
            probes['zero_delay'] = 1
            if ci < len(calls) and calls[ci][0] == 'pause' and \
                    calls[ci][2] == 0:
                _k, a, _d, r, la, lb = calls[ci][:6]
                ci += 1
                if blocks_between(la, lb) > 0 or (
                        r > a + TOL and not stalled(a, r)):
                    violation('zero-delay-blocks',
                              '{}: a zero delay blocked on the clock from '
                              't={:.6f} to {:.6f}'.format(where, a, r))
            arrival_floor = None
            prev_wait_kind = 'zero'
        else:
            if ci >= len(calls) or calls[ci][0] != 'until':
                # wait_until records 'reset' before 'until' (reset is called
                # inside); accept that order
                pass
            # find the 'until' record and its inner reset
            j = ci
            inner_reset = None
            until = None
            while j < len(calls) and j < ci + 2:
                if calls[j][0] == 'reset':
                    inner_reset = calls[j]
                if calls[j][0] == 'until':
                    until = calls[j]
                j += 1
            if until is None or inner_reset is None:
                violation('wait-sequence',
                          '{}: expected a time-of-day wait with a restart of '
                          'the time line, the clock saw {}; script:\n{}'
                          .format(where, [c[0] for c in calls[ci:ci + 2]],
                                  text))
                return
            ci = j
            _k, a, _pat, r, la, lb = until[:6]
            m = _first_match(w['val'], start_dt, a)
            if m is None:
                res['harness_error'] = 'pattern never matches: {}'.format(
                    w['val'])
                return
            nb = blocks_between(la, lb)
            t0_new = inner_reset[1]
            if m <= a + EPS:
                probes['time_of_day_already_matching'] = 1
            elif nb:
                probes['time_of_day_wait_blocked'] = 1
                blocked_any = True
            if t0_new < m - EPS:
                violation('time-of-day/early',
                          '{}: the time line restarted at t={:.6f}, before '
                          'the awaited time arrived at {:.6f}'.format(
                              where, t0_new, m))
            if not stalled(a, max(t0_new, m + 2 * tick)):
                if m <= a + EPS:
                    if t0_new > a + TOL:
                        violation('time-of-day/late',
                                  '{}: pattern already matched on arrival at '
                                  '{:.6f} but the time line restarted at '
                                  '{:.6f}'.format(where, a, t0_new))
                else:
                    expect = [tk for tk in wake_ticks if tk >= m - TOL]
                    zone = [tk for tk in expect if tk <= m + AMBIG]
                    ok_times = zone + [tk for tk in expect
                                       if tk > m + AMBIG][:1]
                    if not any(-EPS <= t0_new - x <= TOL for x in ok_times) or \
                            t0_new > m + 2 * tick + TOL:
                        violation('time-of-day/late',
                                  '{}: awaited time arrived at {:.6f}; the '
                                  'time line restarted at {:.6f}, expected '
                                  'the first tick that found the script '
                                  'waiting: {}; tick {}'.format(
                                      where, m, t0_new,
                                      expect[0] if expect else None, tick))
            t0 = t0_new
            acc = 0.0
            arrival_floor = m
            prev_wait_kind = 'at'
        # the command that follows must not reach its device before the wait
        # allows it
        if w['tag'] is not None:
            pool = by_tag.get(1500 + w['tag'], [])
            k0 = used.get(w['tag'], 0)
            last_of_tag = not any(x['tag'] == w['tag']
                                  for x in waits[wi + 1:])
            got = pool[k0:] if last_of_tag else pool[k0:k0 + len(w['devs'])]
            used[w['tag']] = k0 + len(got)
            devs = sorted(x[2] for x in got)
            if devs != sorted(w['devs']):
                violation('command-missing',
                          '{}: command tagged {} reached devices {}, expected '
                          '{}; script:\n{}'.format(where, 1500 + w['tag'],
                                                   devs, w['devs'], text))
                return
            e_first = min(x[1] for x in got)
            if arrival_floor is not None and e_first < arrival_floor - EPS:
                violation('early',
                          '{}: command tagged {} reached its device at '
                          't={:.6f}, before {:.6f}'.format(
                              where, 1500 + w['tag'], e_first, arrival_floor))
            if prev_wait_kind == 'zero' and prev_cmd_time is not None:
                gap_from = prev_cmd_time
                own = w.get('work') or 0.0
                if not stalled(gap_from, e_first) and \
                        e_first - own - gap_from > 0.01 + (
                            1.1 if w.get('get') else 0.0):
                    violation('zero-delay-blocks',
                              '{}: {:.6f} s passed before a command separated '
                              'from its predecessor only by `time 0`'.format(
                                  where, e_first - gap_from))
            prev_cmd_time = max(x[1] for x in got)
            if w.get('work'):
                probes['work_longer_than_delay'] = 1
    if ci < len(calls) and any(c[0] == 'pause' for c in calls[ci:]):
        violation('wait-sequence',
                  'the clock was asked for {} more delays than the script '
                  'contains; script:\n{}'.format(
                      sum(1 for c in calls[ci:] if c[0] == 'pause'), text))
    if any(s.get('raw') and s.get('d') for s in sc['steps']):
        probes['raw_units_delay'] = 1
    res['nontrivial'] = blocked_any
    res['sample'] = {'script': text, 'tick': tick, 'start': sc['start'],
                     'waits': [(w['kind'], w['val']) for w in waits],
                     'clock_calls': [(c[0], round(c[1], 6)) +
                                     ((c[2], round(c[3], 6))
                                      if c[0] == 'pause' else ())
                                     for c in calls[:12]],
                     'ticks': len(all_ticks),
                     'policy': sc['policy']}


if __name__ == '__main__':
    from sim import driver
    sys.exit(driver.main(sys.modules[__name__]))
