"""Helpers shared by the checks that run scripts against the simulated LAN."""
import io
import sys

from . import core, env, bulbs as simbulbs


def snapshot_directory(ls):
    """The light directory through public getters only."""
    return {
        'names': list(ls.get_light_names()),
        'lights': sorted(l.get_name() for l in ls.get_lights()),
        'groups': {g: list(ls.get_group_lights(g) or [])
                   for g in ls.get_group_names()},
        'locations': {g: list(ls.get_location_lights(g) or [])
                      for g in ls.get_location_names()},
    }


def wire_records(net, since_ev=-1, types=None):
    """Per-bulb list of (type, payload) received after event `since_ev`."""
    out = {}
    for b in net.bulbs:
        recs = [(r['type'], r['payload']) for r in b.record
                if r['ev'] > since_ev and (types is None or r['type'] in types)]
        out[b.idx] = recs
    return out


def wire_timed(net, since_ev=-1, types=simbulbs.SCRIPT_TYPES):
    out = []
    for b in net.bulbs:
        for r in b.record:
            if r['ev'] > since_ev and r['type'] in types:
                out.append((r['ev'], round(r['t'], 9), b.idx, r['type'],
                            r['payload']))
    out.sort()
    return out


class StdoutCapture:
    def __enter__(self):
        self.buf = io.StringIO()
        self.old = sys.stdout
        sys.stdout = self.buf
        return self

    def __exit__(self, *_):
        sys.stdout = self.old

    def text(self):
        return self.buf.getvalue()


def fmt_stacks(stacks):
    return '; '.join('{}[{}] {}'.format(n, s['kind'],
                                        ' < '.join(s['stack'][:5]))
                     for n, s in sorted(stacks.items()))


def run_sim(main, chooser, gran='sync', step_cap=400000, start_dt=None,
            stall=False, max_stall=2.0, epoch=1_700_000_000.0, fairness=100):
    sim = core.Sim(chooser, gran=gran, step_cap=step_cap, start_dt=start_dt,
                   max_stall=max_stall, epoch=epoch)
    sim.stall_enabled = stall
    sim.fairness = fairness
    env.quiet_excepthook()
    out = sim.run(lambda: main(sim))
    return sim, out


def thread_of_agent(sim, agent):
    """The simulated thread that runs `agent` (latest one), found through the
    thread body's bound object - independent of Agent's private attributes."""
    found = None
    for t in sim.threads:
        if getattr(t.target, '__self__', None) is agent:
            found = t
    if found is None:
        th = getattr(agent, '_thread', None)
        found = getattr(th, '_st', None)
    return found


def job_control_of(obj):
    """The JobControl instance held by a WebApp, whatever the attribute is
    called."""
    from bardolph.lib.job_control import JobControl
    for v in vars(obj).values():
        if isinstance(v, JobControl):
            return v
    raise RuntimeError('no JobControl found on {!r}'.format(obj))


class Instrument:
    """Wrap methods of a repo class in place for the duration of a run (the
    originals are restored on exit).  wrappers: {method name: fn(original)
    -> replacement}.  Used instead of re-binding a recording subclass so that
    whatever the repo itself binds in its injection container stays in
    effect."""
    def __init__(self, cls, wrappers):
        self.cls = cls
        self.wrappers = wrappers
        self.saved = {}

    def __enter__(self):
        for name, make in self.wrappers.items():
            orig = self.cls.__dict__.get(name)
            if orig is None:
                continue
            self.saved[name] = orig
            setattr(self.cls, name, make(orig))
        return self

    def __exit__(self, *_):
        for name, orig in self.saved.items():
            setattr(self.cls, name, orig)
        self.saved = {}
