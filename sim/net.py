"""Simulated UDP LAN under the real `lifxlan` (DESIGN.md 2.4).

`FakeSocket` replaces the `socket` name inside lifxlan.device and
lifxlan.lifxlan.  Datagrams are routed to bulb models; replies are queued
into the sender's inbox with a latency and `recvfrom` blocks in virtual time.

Fault plan (pure data, part of the scenario):
  {'device': i | '*', 'request': 'GetLabel' | '*', 'occurrence': k | [k..] |
   '*', 'kind': KIND, 'arg': x}
  KIND in drop_request, drop_response, late_response, delay, duplicate,
          send_stall
  {'kind': 'silent', 'device': i, 'from': t0, 'to': t1}      (virtual time)
  {'kind': 'bind_error', 'occurrence': k}                     (k-th bind)
Occurrences count the requests of that type that reached the wire for that
device (1-based), so a plan is independent of the thread schedule.
"""
import heapq
import socket as _socket
import struct

from . import core

EPS = 0.0005
BROADCAST_IP = '10.0.0.255'
BROADCAST_MAC = '00:00:00:00:00:00'
PORT = 56700

MSG_NAMES = {
    2: 'GetService', 3: 'StateService', 20: 'GetPower', 21: 'SetPower',
    22: 'StatePower', 23: 'GetLabel', 25: 'StateLabel', 32: 'GetVersion',
    33: 'StateVersion', 45: 'Acknowledgement', 48: 'GetLocation',
    50: 'StateLocation', 51: 'GetGroup', 53: 'StateGroup', 101: 'LightGet',
    102: 'LightSetColor', 107: 'LightState', 116: 'LightGetPower',
    117: 'LightSetPower', 118: 'LightStatePower',
    501: 'MultiZoneSetColorZones', 502: 'MultiZoneGetColorZones',
    503: 'MultiZoneStateZone', 506: 'MultiZoneStateMultiZone',
    701: 'GetDeviceChain', 702: 'StateDeviceChain', 707: 'GetTileState64',
    711: 'StateTileState64', 715: 'SetTileState64',
}


class Request:
    __slots__ = ('type', 'name', 'source', 'target', 'ack', 'res', 'seq',
                 'payload', 'raw')


def decode(data):
    r = Request()
    r.raw = data
    size, flags, r.source = struct.unpack_from('<HHI', data, 0)
    r.target = ':'.join('%02x' % b for b in data[8:14])
    rf = data[22]
    r.ack = bool(rf & 2)
    r.res = bool(rf & 1)
    r.seq = data[23]
    r.type = struct.unpack_from('<H', data, 32)[0]
    r.name = MSG_NAMES.get(r.type, 'Msg{}'.format(r.type))
    p = data[36:]
    t = r.type
    if t == 102:            # LightSetColor: reserved u8, hsbk, duration u32
        h, s, b, k, dur = struct.unpack_from('<xHHHHI', p, 0)
        r.payload = {'color': (h, s, b, k), 'duration': dur}
    elif t == 117:
        lvl, dur = struct.unpack_from('<HI', p, 0)
        r.payload = {'power_level': lvl, 'duration': dur}
    elif t == 21:
        r.payload = {'power_level': struct.unpack_from('<H', p, 0)[0]}
    elif t == 501:
        st, en, h, s, b, k, dur, ap = struct.unpack_from('<BBHHHHIB', p, 0)
        r.payload = {'start_index': st, 'end_index': en,
                     'color': (h, s, b, k), 'duration': dur, 'apply': ap}
    elif t == 502:
        st, en = struct.unpack_from('<BB', p, 0)
        r.payload = {'start_index': st, 'end_index': en}
    elif t == 707:
        ti, ln, _r, x, y, w = struct.unpack_from('<BBBBBB', p, 0)
        r.payload = {'tile_index': ti, 'length': ln, 'x': x, 'y': y,
                     'width': w}
    elif t == 715:
        ti, ln, _r, x, y, w, dur = struct.unpack_from('<BBBBBBI', p, 0)
        n = (len(p) - 10) // 8
        cols = [struct.unpack_from('<HHHH', p, 10 + 8 * i) for i in range(n)]
        r.payload = {'tile_index': ti, 'length': ln, 'x': x, 'y': y,
                     'width': w, 'duration': dur, 'colors': tuple(cols)}
    else:
        r.payload = {}
    return r


_decode_cache = {}


def decode_cached(data):
    r = _decode_cache.get(data)
    if r is None:
        if len(_decode_cache) > 20000:
            _decode_cache.clear()
        r = decode(data)
        _decode_cache[data] = r
    return r


class SimNet:
    def __init__(self, sim, bulbs, plan=None):
        self.sim = sim
        self.bulbs = bulbs
        self.plan = list(plan or [])
        self.counts = {}            # (device, request name) -> n
        self.binds = 0
        self.fired = {}             # fault kind -> n
        self.wire = []              # every datagram that reached the wire
        self.dropped = []           # (device, name, occurrence, kind)
        self.sockets = 0
        self.by_ip = {b.ip: b for b in bulbs}
        self.send_cost = 0.0002
        sim.net = self

    def fire(self, kind):
        self.fired[kind] = self.fired.get(kind, 0) + 1

    def _rule(self, dev, name, occ, kinds):
        for r in self.plan:
            if r['kind'] not in kinds:
                continue
            d = r.get('device', '*')
            if d != '*' and d != dev:
                continue
            q = r.get('request', '*')
            if q != '*' and q != name:
                continue
            o = r.get('occurrence', '*')
            if o == '*' or o == occ or (isinstance(o, list) and occ in o):
                return r
        return None

    def _silent(self, dev):
        now = self.sim.now
        for r in self.plan:
            if r['kind'] == 'silent' and r.get('device') == dev:
                if r.get('from', 0.0) <= now < r.get('to', float('inf')):
                    return True
        return False

    def bind(self, sock):
        self.binds += 1
        r = None
        for rule in self.plan:
            if rule['kind'] == 'bind_error':
                o = rule.get('occurrence', '*')
                if o == '*' or o == self.binds or (
                        isinstance(o, list) and self.binds in o):
                    r = rule
        if r is not None:
            self.fire('bind_error')
            self.sim.logev('net.bind_error', self.binds)
            raise OSError(98, 'Address already in use (injected)')

    def send(self, sock, data, addr):
        sim = self.sim
        ip = addr[0]
        req = decode_cached(data)
        if ip == BROADCAST_IP:
            targets = self.bulbs
        else:
            b = self.by_ip.get(ip)
            targets = [b] if b is not None else []
        for bulb in targets:
            if req.target != BROADCAST_MAC and req.target != bulb.mac:
                continue
            if not bulb.present:
                continue
            key = (bulb.idx, req.name)
            occ = self.counts.get(key, 0) + 1
            self.counts[key] = occ
            stall = self._rule(bulb.idx, req.name, occ, ('send_stall',))
            if stall is not None:
                self.fire('send_stall')
                sim.sleep(stall.get('arg', 0.3))
            ev = sim.next_event()
            self.wire.append((ev, sim.now, bulb.idx, req.name, occ, data))
            if self._silent(bulb.idx):
                self.fire('silent_device')
                self.dropped.append((bulb.idx, req.name, occ, 'silent'))
                sim.logev('net.drop', bulb.idx, req.name, occ, 'silent')
                continue
            rule = self._rule(bulb.idx, req.name, occ, (
                'drop_request', 'drop_response', 'late_response', 'delay',
                'duplicate'))
            kind = rule['kind'] if rule is not None else None
            if kind == 'drop_request':
                self.fire(kind)
                self.dropped.append((bulb.idx, req.name, occ, kind))
                sim.logev('net.drop', bulb.idx, req.name, occ, kind)
                continue
            replies = bulb.handle(req, ev, sim.now)
            sim.logev('net.tx', bulb.idx, req.name, occ, len(replies))
            if kind == 'drop_response':
                if replies:
                    self.fire(kind)
                    self.dropped.append((bulb.idx, req.name, occ, kind))
                continue
            lat = bulb.latency
            if kind == 'late_response' and replies:
                self.fire(kind)
                lat += (sock.timeout or 1.0) + 0.3
                self.dropped.append((bulb.idx, req.name, occ, kind))
            elif kind == 'delay' and replies:
                self.fire(kind)
                lat += rule.get('arg', 0.4)
            for rep in replies:
                sock.push(sim.now + lat, rep, (bulb.ip, PORT))
                if kind == 'duplicate':
                    self.fire(kind)
                    sock.push(sim.now + 2 * lat + 0.001, rep,
                              (bulb.ip, PORT))


class FakeSocket:
    """Drop-in for socket.socket(AF_INET, SOCK_DGRAM) as lifxlan uses it."""
    def __init__(self, *_args, **_kw):
        self.sim = core.current()
        self.net = self.sim.net
        self.net.sockets += 1
        self.id = self.net.sockets
        self.timeout = None
        self.inbox = []
        self._n = 0
        self.closed = False

    def setsockopt(self, *_):
        pass

    def settimeout(self, t):
        self.timeout = t

    def bind(self, addr):
        self.net.bind(self)

    def close(self):
        self.closed = True
        self.inbox = []

    def push(self, when, data, addr):
        if self.closed:
            return
        self._n += 1
        heapq.heappush(self.inbox, (when, self._n, data, addr))

    def sendto(self, data, addr):
        sim = self.sim
        sim.preempt(('net.send',))
        # sending costs (virtual) time, so a script that never waits still
        # makes the clock move
        sim.now += self.net.send_cost
        self.net.send(self, data, addr)
        return len(data)

    def recvfrom(self, bufsize):
        sim = self.sim
        sim.preempt(('net.recv',))
        deadline = None
        if self.timeout is not None:
            deadline = sim.now + self.timeout + EPS
        while True:
            if self.inbox and self.inbox[0][0] <= sim.now + 1e-12:
                _when, _n, data, addr = heapq.heappop(self.inbox)
                sim.logev('net.rx', self.id, len(data))
                return data, addr
            if deadline is not None and sim.now >= deadline:
                sim.logev('net.timeout', self.id)
                raise _socket.timeout('timed out')
            wake = deadline
            if self.inbox and (wake is None or self.inbox[0][0] < wake):
                wake = self.inbox[0][0]
            sim.block('recv', self.id, wake)


def install():
    """Patch lifxlan's socket/time names (idempotent)."""
    import lifxlan.device as dev
    import lifxlan.lifxlan as lan
    if getattr(dev, '_sim_patched', False):
        return
    for mod in (dev, lan):
        mod.socket = FakeSocket
        mod.sleep = core.time_shim.sleep
        mod.time = core.time_shim.time
        mod.UDP_BROADCAST_IP_ADDRS = [BROADCAST_IP]
    _speed_up_packing()
    dev._sim_patched = True


def _speed_up_packing():
    """Memoise lifxlan's bitstring packing (pure; values are unchanged).

    lifxlan builds every field with bitstring.pack + little_endian, about
    0.5-1 ms per message; a three-bulb discovery is ~60 messages.
    """
    import types
    import lifxlan.message as msg
    import lifxlan.msgtypes as mt
    real_pack = msg.bitstring.pack
    real_le = msg.little_endian
    cache = {}

    class _P:
        __slots__ = ('le',)

    def fast_pack(fmt, *vals):
        key = (fmt, vals)
        try:
            p = cache.get(key)
        except TypeError:
            return real_pack(fmt, *vals)
        if p is None:
            p = _P()
            p.le = real_le(real_pack(fmt, *vals))
            if len(cache) < 200000:
                cache[key] = p
        return p

    def fast_le(bs):
        if type(bs) is _P:
            return bs.le
        return real_le(bs)

    shim = types.SimpleNamespace(pack=fast_pack)
    for mod in (msg, mt):
        mod.bitstring = shim
        mod.little_endian = fast_le
