"""Pre-emption points from sys.monitoring (PEP 669, Python 3.12).

LINE (and, for selected functions, INSTRUCTION) events are enabled *locally*
on the code objects of in-scope repository functions only, so the rest of the
interpreter runs at full speed.  The callback runs in the thread that executes
the code; if that thread is a simulated thread it offers the scheduler a
decision point.
"""
import sys
import types

from . import core

TOOL = 4
SPIN_LINES = 400
_mon = sys.monitoring
_installed = False
_line_codes = set()
_instr_codes = set()
_short = {}


def _short_name(code):
    s = _short.get(code)
    if s is None:
        s = code.co_filename.rsplit('/', 1)[-1]
        _short[code] = s
    return s


def _on_line(code, line):
    st = getattr(core._tls, 'st', None)
    if st is None:
        return None
    sim = st.sim
    if sim.aborted:
        raise core.SimAbort()
    if sim.gran == 'sync':
        # a loop without any synchronisation still has to yield now and then
        st.steps += 1
        if st.steps % SPIN_LINES:
            return None
        sim.steps += SPIN_LINES // 4
    st.tag = (_short_name(code), line)
    sim._switch(st)
    return None


def _on_instr(code, offset):
    st = getattr(core._tls, 'st', None)
    if st is None:
        return None
    sim = st.sim
    if sim.aborted:
        raise core.SimAbort()
    if sim.gran != 'opcode':
        return None
    st.tag = (_short_name(code), code.co_name, offset)
    sim._switch(st)
    return None


def _install():
    global _installed
    if _installed:
        return
    try:
        _mon.use_tool_id(TOOL, 'bardolph-sim')
    except ValueError:
        pass
    _mon.register_callback(TOOL, _mon.events.LINE, _on_line)
    _mon.register_callback(TOOL, _mon.events.INSTRUCTION, _on_instr)
    _installed = True


def _codes_of(obj, seen):
    """All code objects reachable from a function / class / module."""
    out = []
    if isinstance(obj, types.CodeType):
        if obj in seen:
            return out
        seen.add(obj)
        out.append(obj)
        for c in obj.co_consts:
            if isinstance(c, types.CodeType):
                out.extend(_codes_of(c, seen))
        return out
    if isinstance(obj, (staticmethod, classmethod)):
        return _codes_of(obj.__func__, seen)
    if isinstance(obj, property):
        for f in (obj.fget, obj.fset, obj.fdel):
            if f is not None:
                out.extend(_codes_of(f, seen))
        return out
    if isinstance(obj, types.FunctionType):
        out.extend(_codes_of(obj.__code__, seen))
        w = getattr(obj, '__wrapped__', None)
        if w is not None:
            out.extend(_codes_of(w, seen))
        return out
    if isinstance(obj, type):
        for v in vars(obj).values():
            if isinstance(v, (types.FunctionType, staticmethod, classmethod,
                              property, type)):
                if isinstance(v, type) and v.__module__ != obj.__module__:
                    continue
                out.extend(_codes_of(v, seen))
        return out
    return out


def scope_module(module, only=None, instructions=()):
    """Enable line pre-emption for a module's functions.

    only: iterable of qualified names ('Class.method', 'function') or None for
    everything defined in the module.  instructions: qualified names that also
    get per-bytecode events (used when sim.gran == 'opcode').
    """
    _install()
    fname = module.__file__
    seen = set()
    codes = []
    for name, obj in vars(module).items():
        if isinstance(obj, (types.FunctionType, type)):
            if getattr(obj, '__module__', None) != module.__name__:
                continue
            codes.extend(_codes_of(obj, seen))
    only = set(only) if only is not None else None
    instructions = set(instructions)
    for code in codes:
        if code.co_filename != fname:
            continue
        qn = code.co_qualname
        if only is not None and qn not in only:
            continue
        events = _mon.events.LINE
        if qn in instructions:
            events |= _mon.events.INSTRUCTION
            _instr_codes.add(code)
        _line_codes.add(code)
        _mon.set_local_events(TOOL, code, events)


def scoped():
    return sorted({(c.co_filename.rsplit('/', 1)[-1], c.co_qualname)
                   for c in _line_codes})
