"""Seeded baton-passing scheduler, virtual clock and thread primitives.

One `Sim` is one execution.  Every simulated thread is a real
`threading.Thread` parked on its own semaphore; exactly one of them holds the
baton.  A thread hands the baton back at *decision points*:

  * simulated primitives (RLock, Event, Thread.start/join, sleep, sockets),
  * pre-emption points delivered by `sim.tracing` (source lines / bytecodes
    of in-scope repository files),
  * its own end.

At every decision point the `chooser` (a policy object, the only consumer of
the schedule PRNG) picks the thread that runs next, or asks for a *stall*
(virtual time moves to the next timer although threads are runnable).  The
scheduler records only *deviations* from the baseline policy "keep running
the current thread, else the oldest runnable one", so a schedule is a short
list [(decision index, thread name | '<stall>')] that can be replayed and
delta-debugged.

Nothing here reads a real clock or the OS scheduler for a decision.
"""
import hashlib
import sys
import threading as _rt
import datetime as _dt

STALL = '<stall>'

_tls = _rt.local()
_current = None          # the Sim being run in this process (one at a time)


def current():
    st = getattr(_tls, 'st', None)
    if st is not None:
        if st.sim.aborted:
            raise SimAbort()
        return st.sim
    sim = _current
    if sim is None:
        raise RuntimeError('no simulation is running')
    return sim


def me():
    return getattr(_tls, 'st', None)


class SimAbort(BaseException):
    """Unwinds simulated threads when a run is torn down."""


class _Stop(Exception):
    def __init__(self, status, detail=''):
        super().__init__(status)
        self.status = status
        self.detail = detail


class Outcome:
    def __init__(self, status, detail='', stacks=None):
        self.status = status        # ok | deadlock | stepcap | budget | error
        self.detail = detail
        self.stacks = stacks or {}

    def __repr__(self):
        return 'Outcome({!r}, {!r})'.format(self.status, self.detail)


class TState:
    __slots__ = ('sim', 'name', 'role', 'index', 'daemon', 'target', 'args',
                 'kwargs', 'sem', 'state', 'wake_time', 'timed_out',
                 'block_kind', 'block_on', 'joiners', 'exc', 'real', 'tag',
                 'stalls', 'steps', 'last_run', 'acquiring')

    def __init__(self, sim, name, role, index, daemon, target, args, kwargs):
        self.sim = sim
        self.name = name
        self.role = role
        self.index = index
        self.daemon = daemon
        self.target = target
        self.args = args
        self.kwargs = kwargs or {}
        self.sem = _rt.Semaphore(0)
        self.state = 'new'           # new | runnable | blocked | done
        self.wake_time = None
        self.timed_out = False
        self.block_kind = None
        self.block_on = None
        self.joiners = []
        self.exc = None
        self.real = None
        self.tag = ('start',)
        self.stalls = 0
        self.steps = 0
        self.last_run = 0
        self.acquiring = False


_ROLE_BY_TARGET = {
    'Agent._execute_and_call': 'job',
    'Clock.run': 'clock',
    '_light_refresh': 'discovery',
}


_ROLE_BY_MODULE = {
    'bardolph.lib.job_control': 'job',
    'bardolph.lib.clock': 'clock',
    'bardolph.controller.light_set': 'discovery',
}


class Sim:
    def __init__(self, chooser, gran='line', step_cap=400000,
                 epoch=1_700_000_000.0, start_dt=None, max_stall=2.0,
                 keep_log=True, log_cap=200000):
        self.chooser = chooser
        self.gran = gran                    # sync | line | opcode
        self.step_cap = step_cap
        self.epoch = epoch
        self.start_dt = start_dt or _dt.datetime(2024, 3, 5, 11, 58, 41)
        self.clock_read_cost = 0.0
        self.max_stall = max_stall
        self.now = 0.0
        self.threads = []
        self.cur = None
        self.decisions = 0
        self.steps = 0
        self.aborted = False
        self.outcome = None
        self.deviations = []
        self.stall_log = []                 # (decision, from_t, to_t, [names])
        self.parked = {}                    # thread name -> predicate()
        self.stall_enabled = True
        self.budget = None                  # (absolute step limit, label)
        self.flags = {}
        self.keep_log = keep_log
        self.log_cap = log_cap
        self.log = []
        self._hash = hashlib.sha256()
        self._sw_hash = hashlib.sha256()
        self.switches = 0
        self.time_jumps = 0
        self._role_counts = {}
        self._ids = {}
        self._done = _rt.Event()
        self._driver = None
        self.stats = {}
        self.watch = []                     # callables(sim) run at each decision
        self.net = None
        self.evno = 0
        self.forced = None                  # (thread name, decisions left)
        self.fairness = 100                 # decisions a runnable thread may wait
        self.fair_quantum = 12              # decisions granted to a starved thread
        self.spin_limit = 300               # decisions without any event
        self._progress_at = 0

    # -- bookkeeping ------------------------------------------------------
    def next_event(self):
        """Global event sequence number (total order of recorded events)."""
        self.evno += 1
        return self.evno

    def new_id(self, kind):
        n = self._ids.get(kind, 0)
        self._ids[kind] = n + 1
        return '{}{}'.format(kind, n)

    def count(self, key, n=1):
        self.stats[key] = self.stats.get(key, 0) + n

    def logev(self, kind, *detail):
        if kind not in ('sched', 'time', 'stall', 'spin.advance'):
            self._progress_at = self.decisions
        cur = self.cur.name if self.cur is not None else '-'
        rec = (self.steps, round(self.now, 9), cur, kind) + detail
        self._hash.update(repr(rec).encode())
        if self.keep_log and len(self.log) < self.log_cap:
            self.log.append(rec)

    def digest(self):
        return self._hash.hexdigest()

    def switch_digest(self):
        return self._sw_hash.hexdigest()

    def wall(self):
        return self.epoch + self.now

    def datetime_now(self):
        return self.start_dt + _dt.timedelta(seconds=self.now)

    # -- threads ----------------------------------------------------------
    def _new_thread(self, target, args, kwargs, daemon, name=None, role=None):
        if role is None:
            qn = getattr(target, '__qualname__', None) or ''
            role = _ROLE_BY_TARGET.get(qn)
            if role is None:
                # fall back on the module that defines the thread body, so
                # that renaming a method does not change a thread's role
                mod = getattr(target, '__module__', None) or getattr(
                    getattr(target, '__func__', None), '__module__', '') or ''
                role = _ROLE_BY_MODULE.get(mod)
            if role is None:
                role = name or 'thread'
        k = self._role_counts.get(role, 0)
        self._role_counts[role] = k + 1
        tname = role if (role in ('driver', 'discovery') and k == 0) \
            else '{}{}'.format(role, k)
        st = TState(self, tname, role, len(self.threads), daemon, target,
                    args, kwargs)
        st.last_run = self.decisions
        self.threads.append(st)
        st.real = _rt.Thread(target=self._bootstrap, args=(st,),
                             name='sim-' + tname, daemon=True)
        return st

    def _bootstrap(self, st):
        st.sem.acquire()
        _tls.st = st
        try:
            if self.aborted:
                raise SimAbort()
            st.target(*st.args, **st.kwargs)
            # a thread that has returned from its body is still alive for a
            # moment (CPython: until the bootstrap code has released its
            # state lock): is_alive() and join() see it until it is next
            # scheduled
            st.tag = ('thread.exiting',)
            self._switch(st)
        except SimAbort:
            pass
        except BaseException as ex:     # noqa: a thread dying is an event
            st.exc = ex
            if not self.aborted:
                self.logev('thread.exc', st.name, type(ex).__name__, str(ex))
        finally:
            _tls.st = None
            try:
                self._thread_exit(st)
            except SimAbort:
                pass

    def _thread_exit(self, st):
        if self.aborted:
            st.state = 'done'
            return
        st.state = 'done'
        self.logev('thread.end', st.name)
        for j in st.joiners:
            self.wake(j)
        st.joiners = []
        if self._all_done():
            self._finish('ok')
            return
        try:
            nxt = self._pick(None)
        except _Stop as stop:
            self._finish(stop.status, stop.detail)
            return
        self.cur = nxt
        nxt.sem.release()

    def _all_done(self):
        if self._driver.state != 'done':
            return False
        for t in self.threads:
            if not t.daemon and t.state != 'done':
                return False
        return True

    def run(self, main, wall_timeout=120.0):
        """Run `main()` as the simulated driver thread; returns an Outcome."""
        global _current
        if _current is not None:
            raise RuntimeError('nested simulation')
        _current = self
        try:
            st = self._new_thread(main, (), {}, False, role='driver')
            self._driver = st
            st.state = 'runnable'
            self.cur = st
            st.real.start()
            st.sem.release()
            if not self._done.wait(wall_timeout):
                self._finish('error', 'wall timeout in simulation')
            for t in list(self.threads):
                if t.real.ident is not None:
                    t.real.join(10.0)
                    if t.real.is_alive():
                        self.outcome = Outcome(
                            'error', 'thread {} did not unwind'.format(t.name))
        finally:
            _current = None
        drv = self._driver
        if self.outcome is not None and self.outcome.status == 'ok' and \
                drv is not None and drv.exc is not None:
            # an exception that ends the driver thread is a harness failure,
            # never a silently successful run
            import traceback
            self.outcome = Outcome('error', 'driver raised {}: {}\n{}'.format(
                type(drv.exc).__name__, drv.exc,
                ''.join(traceback.format_tb(drv.exc.__traceback__)[-4:])))
        return self.outcome

    def _finish(self, status, detail=''):
        if self.outcome is not None:
            return
        stacks = {}
        if status != 'ok':
            stacks = self._stacks()
        self.outcome = Outcome(status, detail, stacks)
        self.logev('finish', status, detail)
        self.aborted = True
        for t in self.threads:
            if t.state != 'done':
                t.sem.release()
        self._done.set()

    def _stacks(self):
        frames = sys._current_frames()
        out = {}
        for t in self.threads:
            if t.state == 'done' or t.real.ident is None:
                continue
            fr = frames.get(t.real.ident)
            lines = []
            while fr is not None:
                fn = fr.f_code.co_filename
                if '/verif/sim/' not in fn and 'threading.py' not in fn:
                    lines.append('{}:{}:{}'.format(
                        fn.rsplit('/', 1)[-1], fr.f_lineno,
                        fr.f_code.co_name))
                fr = fr.f_back
            out[t.name] = {'state': t.state, 'kind': t.block_kind,
                           'stack': lines[:12]}
        return out

    # -- the scheduler ----------------------------------------------------
    def _is_parked(self, t):
        pred = self.parked.get(t.name)
        if pred is None:
            return False
        if pred():
            return True
        del self.parked[t.name]
        return False

    def _next_timer(self):
        best = None
        for t in self.threads:
            if t.state == 'blocked' and t.wake_time is not None:
                if best is None or t.wake_time < best:
                    best = t.wake_time
        return best

    def _timers_due(self):
        now = self.now + 1e-12
        for t in self.threads:
            if t.state == 'blocked' and t.wake_time is not None \
                    and t.wake_time <= now:
                return True
        return False

    def _advance(self, when):
        if when > self.now:
            self.now = when
        self.time_jumps += 1
        for t in self.threads:
            if (t.state == 'blocked' and t.wake_time is not None
                    and t.wake_time <= self.now + 1e-12):
                t.state = 'runnable'
                t.timed_out = True
                t.wake_time = None
                t.last_run = self.decisions
        self.logev('time')

    def _pick(self, cur):
        while True:
            self.steps += 1
            if self.steps > self.step_cap:
                raise _Stop('stepcap', 'step cap {}'.format(self.step_cap))
            if self.budget is not None and self.steps > self.budget[0]:
                raise _Stop('budget', self.budget[1])
            for w in self.watch:
                w(self, cur)
            if self._timers_due():
                self._advance(self.now)
            runnable = [t for t in self.threads if t.state == 'runnable']
            cands = runnable
            if self.parked:
                cands = [t for t in runnable if not self._is_parked(t)]
            timer = self._next_timer()
            if not cands:
                if timer is None:
                    if runnable:            # only parked threads are left
                        self.parked.clear()
                        continue
                    raise _Stop('deadlock', 'no runnable thread, no timer')
                self._advance(timer)
                continue
            default = cur if (cur is not None and cur.state == 'runnable'
                              and cur in cands) else cands[0]
            idx = self.decisions
            self.decisions += 1
            # threads that spin without synchronising still let time pass
            if (idx - self._progress_at > self.spin_limit
                    and timer is not None and not self._lock_waiter()
                    and timer - self.now <= self.max_stall):
                self._progress_at = idx
                self.count('spin_advance')
                self.stall_log.append((idx, self.now, timer,
                                       [t.name for t in runnable]))
                self.logev('spin.advance', timer)
                self._advance(timer)
                continue
            # fairness: a real scheduler does not starve a runnable thread
            # for ever; part of the simulator (applies on replay too)
            if len(cands) > 1:
                oldest = min(cands, key=lambda t: t.last_run)
                if idx - oldest.last_run > self.fairness and \
                        oldest is not default and self.forced is None:
                    oldest.last_run = idx
                    self.count('fairness_forced')
                    # a time slice, not a single step
                    self.forced = (oldest.name, self.fair_quantum)
                    return oldest
            if self.forced is not None:
                name, left = self.forced
                pick = None
                for t in cands:
                    if t.name == name:
                        pick = t
                if pick is None or left <= 0:
                    self.forced = None
                else:
                    self.forced = (name, left - 1)
                    pick.last_run = idx
                    return pick
            stall_ok = (self.stall_enabled and timer is not None
                        and timer - self.now <= self.max_stall
                        and not self._lock_waiter())
            if len(cands) == 1 and not stall_ok:
                default.last_run = idx
                return default
            tag = cur.tag if cur is not None else ('exit',)
            choice = self.chooser.choose(
                idx, [t.name for t in cands], default.name, tag, stall_ok)
            if choice == STALL and stall_ok:
                self.deviations.append((idx, STALL))
                names = [t.name for t in runnable]
                for t in runnable:
                    t.stalls += 1
                self.stall_log.append((idx, self.now, timer, names))
                self.logev('stall', timer)
                self.count('stall')
                self._advance(timer)
                continue
            chosen = default
            if choice != default.name and choice != STALL:
                for t in cands:
                    if t.name == choice:
                        chosen = t
                        self.deviations.append((idx, choice))
                        break
            chosen.last_run = idx
            return chosen

    def _lock_waiter(self):
        """Is some thread inside a timed lock acquisition (blocked on it, or
        woken and about to re-contend)?  No stall is applied then, so that the
        1 s lock time-outs of JobControl stay dormant (DESIGN.md 2.4)."""
        for t in self.threads:
            if t.state != 'done' and t.acquiring:
                return True
        return False

    def _switch(self, st):
        st.steps += 1
        try:
            nxt = self._pick(st)
        except _Stop as stop:
            self._finish(stop.status, stop.detail)
            raise SimAbort()
        if nxt is st:
            return
        self.switches += 1
        rec = (st.role, st.tag, nxt.role)
        self._sw_hash.update(repr(rec).encode())
        self.logev('sched', st.name, nxt.name, st.tag)
        self.cur = nxt
        nxt.sem.release()
        st.sem.acquire()
        if self.aborted:
            raise SimAbort()

    # -- API for primitives and harnesses ------------------------------------
    def preempt(self, tag):
        st = me()
        if st is None or st.sim is not self:
            return
        if self.aborted:
            raise SimAbort()
        st.tag = tag
        self._switch(st)

    def block(self, kind, on, deadline):
        """Block the calling thread; True if woken, False if timed out."""
        st = me()
        if self.aborted:
            raise SimAbort()
        st.state = 'blocked'
        st.block_kind = kind
        st.block_on = on
        st.wake_time = deadline
        st.timed_out = False
        st.tag = ('block', kind)
        self._switch(st)
        st.block_kind = None
        st.block_on = None
        return not st.timed_out

    def wake(self, st):
        if st.state == 'blocked':
            st.state = 'runnable'
            st.wake_time = None
            st.timed_out = False
            st.last_run = self.decisions

    def sleep(self, seconds):
        if seconds is None or seconds <= 0:
            self.preempt(('sleep0',))
            return
        self.logev('sleep', round(seconds, 9))
        self.block('sleep', None, self.now + seconds)

    def force(self, name, decisions):
        """Targeted schedules: prefer thread `name` for the next decisions.
        Part of the scenario (re-applied on replay), not of the schedule."""
        self.forced = (name, decisions)

    def set_budget(self, steps, label):
        self.budget = (self.steps + steps, label) if steps else None

    def thread(self, name):
        for t in self.threads:
            if t.name == name:
                return t
        return None

    def spawn(self, fn, role, daemon=False):
        """Start a harness thread (client, requester) under the scheduler."""
        st = self._new_thread(fn, (), {}, daemon, role=role)
        st.state = 'runnable'
        st.real.start()
        self.logev('thread.start', st.name)
        return st

    def join(self, st, timeout=None):
        cur = me()
        deadline = None if timeout is None else self.now + timeout
        while st.state != 'done':
            if deadline is not None and self.now >= deadline:
                return False
            st.joiners.append(cur)
            ok = self.block('join', st.name, deadline)
            if cur in st.joiners:
                st.joiners.remove(cur)
            if not ok and st.state != 'done':
                return False
        return True


# ---------------------------------------------------------------------------
# Primitive shims.  Semantics follow CPython's threading module.
# ---------------------------------------------------------------------------
class SimRLock:
    _reentrant = True

    def __init__(self):
        self._sim = current()
        self._owner = None
        self._count = 0
        self._waiters = []
        self.id = self._sim.new_id('lock')

    def acquire(self, blocking=True, timeout=-1):
        sim = self._sim
        st = me()
        sim.preempt(('lock.acq', self.id))
        deadline = None
        if timeout is not None and timeout >= 0:
            deadline = sim.now + timeout
        try:
            while True:
                if self._owner is None or (self._reentrant
                                           and self._owner is st):
                    self._owner = st
                    self._count += 1
                    sim.logev('lock.acq', self.id)
                    return True
                if not blocking:
                    return False
                if deadline is not None and sim.now >= deadline:
                    sim.logev('lock.timeout', self.id)
                    sim.count('lock_timeout')
                    return False
                self._waiters.append(st)
                sim.count('lock_contended')
                st.acquiring = deadline is not None
                sim.block('lock', self.id, deadline)
                if st in self._waiters:
                    self._waiters.remove(st)
        finally:
            st.acquiring = False

    def release(self):
        sim = self._sim
        st = me()
        if self._owner is not st:
            raise RuntimeError('cannot release un-acquired lock')
        self._count -= 1
        if self._count == 0:
            self._owner = None
            for w in list(self._waiters):
                sim.wake(w)
        sim.logev('lock.rel', self.id)
        sim.preempt(('lock.rel', self.id))

    def __enter__(self):
        self.acquire()
        return self

    def __exit__(self, *_):
        self.release()

    def locked(self):
        return self._owner is not None


class SimLock(SimRLock):
    _reentrant = False

    def release(self):
        # a plain Lock may be released by any thread
        sim = self._sim
        if self._owner is None:
            raise RuntimeError('release unlocked lock')
        self._count = 0
        self._owner = None
        for w in list(self._waiters):
            sim.wake(w)
        sim.logev('lock.rel', self.id)
        sim.preempt(('lock.rel', self.id))


class SimEvent:
    def __init__(self):
        self._sim = current()
        self._flag = False
        self._waiters = []
        self.id = self._sim.new_id('event')

    def is_set(self):
        return self._flag

    isSet = is_set

    def set(self):
        sim = self._sim
        sim.preempt(('event.set', self.id))
        self._flag = True
        n = len(self._waiters)
        for w in self._waiters:
            sim.wake(w)
        self._waiters = []
        sim.logev('event.set', self.id, n)

    def clear(self):
        sim = self._sim
        sim.preempt(('event.clear', self.id))
        self._flag = False
        sim.logev('event.clear', self.id)

    def wait(self, timeout=None):
        sim = self._sim
        st = me()
        sim.preempt(('event.wait', self.id))
        if self._flag:
            return True
        deadline = None if timeout is None else sim.now + max(timeout, 0)
        self._waiters.append(st)
        sim.logev('event.block', self.id)
        woken = sim.block('event', self.id, deadline)
        if not woken:
            if st in self._waiters:
                self._waiters.remove(st)
            return self._flag
        sim.logev('event.wake', self.id)
        return True


class SimThread:
    def __init__(self, group=None, target=None, name=None, args=(),
                 kwargs=None, *, daemon=None):
        self._sim = current()
        self._target = target
        self._args = args
        self._kwargs = kwargs
        self._name = name
        self.daemon = bool(daemon)
        self._st = None

    @property
    def name(self):
        return self._st.name if self._st is not None else (self._name or 'new')

    @property
    def ident(self):
        return None if self._st is None else self._st.index + 1

    def run(self):
        if self._target is not None:
            self._target(*self._args, **(self._kwargs or {}))

    def start(self):
        sim = self._sim
        if self._st is not None:
            raise RuntimeError('threads can only be started once')
        sim.preempt(('thread.start',))
        target = self._target if self._target is not None else self.run
        args = self._args if self._target is not None else ()
        kwargs = self._kwargs if self._target is not None else None
        st = sim._new_thread(target, args, kwargs, self.daemon,
                             name=self._name)
        self._st = st
        st.state = 'runnable'
        st.real.start()
        sim.logev('thread.start', st.name)
        sim.preempt(('thread.started',))

    def is_alive(self):
        return self._st is not None and self._st.state != 'done'

    def join(self, timeout=None):
        if self._st is None:
            raise RuntimeError('cannot join thread before it is started')
        self._sim.preempt(('thread.join',))
        self._sim.join(self._st, timeout)


class _ThreadingShim:
    """Stands in for the `threading` module inside patched repo modules."""
    Thread = SimThread
    RLock = SimRLock
    Lock = SimLock
    Event = SimEvent
    local = _rt.local

    @staticmethod
    def current_thread():
        st = me()

        class _T:
            name = st.name if st else 'main'
            ident = (st.index + 1) if st else 0
        return _T()

    @staticmethod
    def get_ident():
        st = me()
        return (st.index + 1) if st else 0


threading_shim = _ThreadingShim()


class _TimeShim:
    """Stands in for the `time` module (and for lifxlan's `time`/`sleep`)."""
    @staticmethod
    def time():
        return current().wall()

    @staticmethod
    def monotonic():
        return current().now

    perf_counter = monotonic

    @staticmethod
    def sleep(seconds):
        current().sleep(seconds)

    def __getattr__(self, name):
        import time as _t
        return getattr(_t, name)


time_shim = _TimeShim()


class datetime_shim:
    """Stands in for `datetime.datetime` where only now() is used."""
    @staticmethod
    def now(tz=None):
        # reading the wall clock may itself take (virtual) time: two
        # consecutive reads need not see the same instant
        s = current()
        v = s.datetime_now()
        if s.clock_read_cost:
            s.now += s.clock_read_cost
        return v

    @staticmethod
    def utcfromtimestamp(ts):
        return _dt.datetime.utcfromtimestamp(ts)
