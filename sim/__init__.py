"""Deterministic simulator for Bardolph (see /verif/DESIGN.md section 2)."""
