"""Installs the simulator at Bardolph's seams (DESIGN.md 2.1).

Everything is attribute injection on already-imported modules; /repo is not
edited.  Installation is idempotent and lasts for the life of the process:
the shims dispatch to whatever `Sim` is currently running.
"""
import logging
import random
import sys

from . import core, tracing

_installed = {}


def repo_check():
    import os
    import bardolph
    path = bardolph.__file__
    root = os.environ.get('VERIF_REPO') or '/repo'
    if not path.startswith(root.rstrip('/') + '/'):
        raise RuntimeError('bardolph is imported from {} (expected {})'
                           .format(path, root))
    return path


def patch_module(mod):
    """Replace every module-level reference to threading / time / datetime
    (the modules themselves or names imported from them) by the simulator's
    shims, however the module spells its imports."""
    import datetime as _dt
    import threading as _th
    import time as _t
    import types

    dt_mod_shim = types.SimpleNamespace(
        datetime=core.datetime_shim, timedelta=_dt.timedelta, date=_dt.date,
        time=_dt.time)
    swaps = [
        (_th, core.threading_shim), (_t, core.time_shim),
        (_dt, dt_mod_shim), (_dt.datetime, core.datetime_shim),
        (_th.Thread, core.SimThread), (_th.RLock, core.SimRLock),
        (_th.Lock, core.SimLock), (_th.Event, core.SimEvent),
        (_t.sleep, core.time_shim.sleep), (_t.time, core.time_shim.time),
        (_t.monotonic, core.time_shim.monotonic),
    ]
    for name, value in list(vars(mod).items()):
        for real, shim in swaps:
            if value is real:
                setattr(mod, name, shim)


def install_threads():
    """Scheduler seams: threading/time/datetime in the threaded modules."""
    if _installed.get('threads'):
        return
    repo_check()
    from bardolph.lib import job_control, clock
    from bardolph.controller import light_set, light, script_job
    from bardolph.vm import machine

    for mod in (job_control, clock, light_set, light):
        patch_module(mod)

    tracing.scope_module(job_control, instructions=(
        'JobControl._run_next_job', 'JobControl._enqueue_job',
        'JobControl._on_execution_done', 'JobControl._on_background_done',
        'JobControl.stop_current', 'JobControl.stop_job',
        'JobControl.spawn_job', 'JobControl.is_running',
        'JobControl.has_jobs', 'JobControl.clear_queue',
        'Agent.execute', 'Agent.is_running', 'Agent._execute_and_call'))
    tracing.scope_module(clock, instructions=(
        'Clock.run', 'Clock.stop', 'Clock.fire', 'Clock.wait',
        'Clock.pause_for', 'Clock.wait_until', 'Clock.reset', 'Clock.start'))
    tracing.scope_module(machine, only=(
        'Machine.run', 'Machine.stop', 'Machine._wait', 'Machine.reset'),
        instructions=('Machine.stop', 'Machine.reset'))
    tracing.scope_module(script_job, only=(
        'ScriptJob.execute', 'ScriptJob.request_stop'))
    tracing.scope_module(light_set, only=(
        '_light_refresh', '_start_light_refresh', 'LightSet.refresh'))
    _installed['threads'] = True


def install_web():
    if _installed.get('web'):
        return
    from web import web_app, front_end
    tracing.scope_module(web_app, only=(
        'WebApp.queue_script', 'WebApp.get_script_control',
        'WebApp.get_script_list', 'WebApp.stop_script', 'WebApp.stop_current',
        'WebApp.stop_all', 'WebApp.get_status'))
    tracing.scope_module(front_end)
    _installed['web'] = True


class LogCapture(logging.Handler):
    """Collects log records deterministically (message and level only)."""
    def __init__(self):
        super().__init__(level=logging.DEBUG)
        self.records = []

    def emit(self, record):
        try:
            msg = record.getMessage()
        except Exception:       # e.g. logging.error('x', type) in the repo
            msg = str(record.msg) + ' % ' + repr(record.args)
        self.records.append((record.levelname, msg))

    def has(self, needle, level=None):
        return any(needle in m and (level is None or lv == level)
                   for lv, m in self.records)

    def count(self, needle):
        return sum(1 for _, m in self.records if needle in m)


def capture_logs(level=logging.INFO):
    root = logging.getLogger()
    for h in list(root.handlers):
        root.removeHandler(h)
    cap = LogCapture()
    root.addHandler(cap)
    root.setLevel(level)
    logging.raiseExceptions = False
    return cap


def seed_globals(seed):
    random.seed(seed)


def quiet_excepthook():
    """Threads that die are recorded by the simulator, not printed."""
    import threading
    threading.excepthook = lambda args: None


# ---------------------------------------------------------------------------
# World construction: Bardolph wired the way light_module.configure() wires
# it, but on the simulated LAN and without touching log files.
# ---------------------------------------------------------------------------
DEFAULT_SETTINGS = {
    'default_num_lights': None,
    'sleep_time': 0.1,
    'refresh_sleep_time': 60,
    'failure_sleep_time': 20,
    'light_gc_time': 300,
    'script_path': 'scripts',
    'single_light_discover': True,
    'use_fakes': False,
    'log_to_console': True,
}


def install_net():
    if _installed.get('net'):
        return
    from . import net
    net.install()
    _installed['net'] = True


def build_world(sim, population, plan=None, settings=None, discover=True,
                output='stdout'):
    """Must be called from inside a simulated thread.

    Binds Settings, Clock (real, on virtual time), Output, LifxLanApi (real
    lifxlan on the simulated LAN) and a LightSet.  Returns (net, light_set).
    """
    from . import net as simnet, bulbs as simbulbs
    from bardolph.lib import injection, settings as settings_mod, clock
    from bardolph.lib import std_out_output, object_list_output, i_lib
    from bardolph.controller import lifx_lan_api, light_set, i_controller
    from bardolph.runtime import runtime_module
    import lifxlan

    install_threads()
    install_net()
    injection.configure()
    cfg = dict(DEFAULT_SETTINGS)
    cfg.update(settings or {})
    _installed['cfg'] = dict(cfg)
    settings_mod.using(cfg).configure()
    clock.configure()
    if output == 'stdout':
        std_out_output.configure()
    else:
        injection.bind_instance(
            object_list_output.ObjectListOutput()).to(i_lib.Output)
    runtime_module.configure()
    net = simnet.SimNet(sim, simbulbs.make_bulbs(population), plan)
    # one LifxLAN for the life of the world, with a seeded source id
    random.seed(0x5EED)          # lifxlan draws its source id from `random`
    api = lifx_lan_api.LifxLanApi()
    injection.bind_instance(api).to(i_controller.LightApi)
    ls = light_set.LightSet()
    ok = None
    if discover:
        ok = ls.discover()
    injection.bind_instance(ls).to(i_controller.LightSet)
    return net, ls, ok


def start_refresh_thread():
    """Start Bardolph's light-refresh thread the public way:
    light_set.configure() with single_light_discover off (it discovers, starts
    the thread and binds a new LightSet).  Returns that LightSet."""
    from bardolph.lib import settings as settings_mod, injection
    from bardolph.controller import light_set, i_controller
    cfg = dict(_installed['cfg'])
    cfg['single_light_discover'] = False
    settings_mod.using(cfg).configure()
    light_set.configure()
    return injection.provide(i_controller.LightSet)
