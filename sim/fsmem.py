"""In-memory file table behind the `open` name of parse.py and web_app.py."""
import io
import os


class MemFS:
    def __init__(self):
        self.files = {}
        self.opened = []          # (normalised path, mode)

    @staticmethod
    def norm(path):
        return os.path.normpath(path)

    def put(self, path, text):
        self.files[self.norm(path)] = text

    def open(self, path, mode='r', *_a, **_k):
        p = self.norm(path)
        self.opened.append((p, mode))
        if 'r' in mode:
            if p not in self.files:
                raise FileNotFoundError(2, 'No such file or directory', path)
            return io.StringIO(self.files[p])
        fs = self

        class _W(io.StringIO):
            def close(self_inner):
                fs.files[p] = self_inner.getvalue()
                super().close()
        return _W()


_current = MemFS()


def install(fs):
    """Route open() in bardolph.parser.parse and web.web_app to `fs`."""
    global _current
    _current = fs
    from bardolph.parser import parse
    from web import web_app
    parse.open = _open
    web_app.open = _open


def _open(path, mode='r', *a, **k):
    return _current.open(path, mode, *a, **k)
