"""Scheduling policies (choosers).  Only these draw from the schedule PRNG."""
import random

from .core import STALL


class RandomChooser:
    """kind: 'uniform' | 'seq' | 'pct'.

    uniform: every decision picks uniformly among the runnable threads.
    seq:     keep the default thread, deviate with probability p_switch.
    pct:     random thread priorities, `depth` priority-change points placed
             uniformly over an estimated run length (Burckhardt et al., PCT).
    p_stall: probability that an allowed stall is taken at a decision.
    """
    def __init__(self, seed, kind='seq', p_switch=0.1, p_stall=0.0,
                 depth=2, est_len=400):
        self.rng = random.Random(seed)
        self.kind = kind
        self.p_switch = p_switch
        self.p_stall = p_stall
        self.prio = {}
        self.low = 0.0
        self.change = set()
        if kind == 'pct':
            self.change = {self.rng.randrange(est_len) for _ in range(depth)}

    def describe(self):
        return {'kind': self.kind, 'p_switch': self.p_switch,
                'p_stall': self.p_stall}

    def choose(self, idx, names, default, tag, stall_ok):
        rng = self.rng
        if stall_ok and self.p_stall > 0 and rng.random() < self.p_stall:
            return STALL
        if len(names) == 1:
            return default
        if self.kind == 'uniform':
            return names[rng.randrange(len(names))]
        if self.kind == 'seq':
            if rng.random() < self.p_switch:
                return names[rng.randrange(len(names))]
            return default
        # pct
        for n in names:
            if n not in self.prio:
                self.prio[n] = rng.random() + 1.0
        if idx in self.change:
            self.low -= 1.0
            self.prio[default] = self.low
        return max(names, key=lambda n: self.prio[n])


class ReplayChooser:
    """Follows the baseline policy except at recorded deviations."""
    def __init__(self, deviations):
        self.dev = {int(i): c for i, c in deviations}
        self.misses = 0

    def describe(self):
        return {'kind': 'replay', 'deviations': len(self.dev)}

    def choose(self, idx, names, default, tag, stall_ok):
        c = self.dev.get(idx)
        if c is None:
            return default
        if c == STALL:
            if stall_ok:
                return STALL
            self.misses += 1
            return default
        if c in names:
            return c
        self.misses += 1
        return default


def draw_policy(rng, est_len=400, stalls=True):
    """Swarm: draw one policy configuration for a run from the scenario rng."""
    kind = rng.choice(['uniform', 'seq', 'seq', 'seq', 'pct', 'pct'])
    p_switch = rng.choice([0.01, 0.03, 0.1, 0.25, 0.5])
    p_stall = rng.choice([0.0, 0.0, 0.02, 0.1, 0.3]) if stalls else 0.0
    depth = rng.choice([1, 2, 3])
    gran = rng.choice(['sync', 'line', 'line', 'line', 'opcode'])
    return {'kind': kind, 'p_switch': p_switch, 'p_stall': p_stall,
            'depth': depth, 'est_len': est_len, 'gran': gran}


def make_chooser(seed, cfg):
    return RandomChooser(seed, cfg['kind'], cfg['p_switch'], cfg['p_stall'],
                         cfg['depth'], cfg['est_len'])
