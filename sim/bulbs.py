"""Bulb firmware models (trusted stub) for the simulated LAN.

Replies are built with lifxlan's own message classes (cached by content), so
field layout is lifxlan's, not mine.  Every datagram a bulb receives is
recorded with the global event number and virtual time: that record is the
"commands that reach the devices" of the properties.
"""
from lifxlan import msgtypes as m

PLAIN, MULTIZONE, MATRIX = 27, 32, 57      # product ids (lifxlan.products)

_reply_cache = {}


def _packed(cls, mac, source, seq, payload_key, payload_fn):
    key = (cls.__name__, mac, source, seq, payload_key)
    data = _reply_cache.get(key)
    if data is None:
        if len(_reply_cache) > 50000:
            _reply_cache.clear()
        data = cls(mac, source, seq, payload_fn()).packed_message
        _reply_cache[key] = data
    return data


def _label16(text):
    raw = text.encode('utf-8')[:16]
    return list(raw + b'\0' * (16 - len(raw)))


class Bulb:
    def __init__(self, spec, idx):
        self.idx = idx
        self.spec = spec
        self.mac = spec.get('mac') or 'd0:73:d5:00:{:02x}:{:02x}'.format(
            idx // 256, idx % 256 + 1)
        self.ip = spec.get('ip') or '10.0.0.{}'.format(idx + 10)
        self.product = spec.get('product', PLAIN)
        self.label = spec['label']
        self.group = spec.get('group', 'Group')
        self.location = spec.get('location', 'Home')
        self.latency = spec.get('latency', 0.004)
        self.present = spec.get('present', True)
        self.power = spec.get('power', 0)
        self.color = tuple(spec.get('color', (0, 0, 0, 3500)))
        nz = spec.get('zones', 16 if self.product == MULTIZONE else 0)
        self.zones = [tuple(spec.get('zone_color', (100 + i, 200, 300, 3500)))
                      for i in range(nz)]
        self.tile_w = spec.get('tile_w', 5)
        self.tile_h = spec.get('tile_h', 6)
        self.tile = [(0, 0, 0, 3500)] * 64
        self.record = []

    def reset_state(self):
        record = self.record
        present = self.present
        self.__init__(self.spec, self.idx)
        self.record = record
        self.present = present

    # ------------------------------------------------------------------
    def handle(self, req, ev, now):
        """Apply `req`, record it, return the list of reply datagrams."""
        p = req.payload
        summary = tuple(sorted((k, v) for k, v in p.items()))
        self.record.append({'ev': ev, 't': now, 'type': req.name,
                            'payload': summary})
        out = []
        src, seq, mac = req.source, req.seq, self.mac
        t = req.name

        def rep(cls, key, fn):
            out.append(_packed(cls, mac, src, seq, key, fn))

        if t == 'LightSetColor':
            self.color = tuple(p['color'])
            self.zones = [self.color for _ in self.zones]
        elif t == 'LightSetPower' or t == 'SetPower':
            self.power = 65535 if p['power_level'] else 0
        elif t == 'MultiZoneSetColorZones':
            # LIFX wire protocol: end_index is inclusive
            for i in range(p['start_index'], p['end_index'] + 1):
                if 0 <= i < len(self.zones):
                    self.zones[i] = tuple(p['color'])
        elif t == 'SetTileState64':
            cols = list(p['colors'])[:64]
            self.tile[:len(cols)] = cols

        if req.ack:
            rep(m.Acknowledgement, (), dict)
        if not req.res:
            return out

        if t == 'GetService':
            rep(m.StateService, (1, 56700),
                lambda: {'service': 1, 'port': 56700})
        elif t == 'GetVersion':
            rep(m.StateVersion, (self.product,),
                lambda: {'vendor': 1, 'product': self.product, 'version': 0})
        elif t == 'GetLabel':
            rep(m.StateLabel, (self.label,), lambda: {'label': self.label})
        elif t == 'GetGroup':
            rep(m.StateGroup, (self.group,),
                lambda: {'group': _label16(self.group), 'label': self.group,
                         'updated_at': 0})
        elif t == 'GetLocation':
            rep(m.StateLocation, (self.location,),
                lambda: {'location': _label16(self.location),
                         'label': self.location, 'updated_at': 0})
        elif t == 'GetPower':
            rep(m.StatePower, (self.power,),
                lambda: {'power_level': self.power})
        elif t == 'LightGetPower':
            rep(m.LightStatePower, (self.power,),
                lambda: {'power_level': self.power})
        elif t == 'LightGet':
            rep(m.LightState, (self.color, self.power, self.label),
                lambda: {'color': list(self.color), 'reserved1': 0,
                         'power_level': self.power, 'label': self.label,
                         'reserved2': 0})
        elif t == 'MultiZoneGetColorZones' and self.zones:
            n = len(self.zones)
            st = min(p['start_index'], n - 1)
            st -= st % 8
            cols = self.zones[st:st + 8]
            cols = cols + [(0, 0, 0, 0)] * (8 - len(cols))
            rep(m.MultiZoneStateMultiZone, (n, st, tuple(cols)),
                lambda: {'count': n, 'index': st,
                         'color': [list(c) for c in cols]})
        elif t == 'GetDeviceChain' and self.product == MATRIX:
            def chain():
                tile = {'reserved1': 0, 'reserved2': 0, 'reserved3': 0,
                        'reserved4': 0, 'user_x': 0.0, 'user_y': 0.0,
                        'width': self.tile_w, 'height': self.tile_h,
                        'reserved5': 0, 'device_version_vendor': 1,
                        'device_version_product': self.product,
                        'device_version_version': 0, 'firmware_build': 0,
                        'reserved6': 0, 'firmware_version': 0,
                        'reserved7': 0}
                blank = dict(tile, width=0, height=0)
                return {'start_index': 0, 'total_count': 1,
                        'tile_devices': [tile] + [blank] * 15}
            rep(m.StateDeviceChain, (self.tile_w, self.tile_h), chain)
        elif t == 'GetTileState64' and self.product == MATRIX:
            cols = tuple(self.tile)
            rep(m.StateTileState64, (cols, self.tile_w),
                lambda: {'tile_index': 0, 'reserved': 0, 'x': 0, 'y': 0,
                         'width': self.tile_w,
                         'colors': [list(c) for c in cols]})
        return out

    # ------------------------------------------------------------------
    def commands(self, since_ev=-1):
        """Datagrams that change or read state on behalf of a script."""
        return [r for r in self.record if r['ev'] > since_ev]


SCRIPT_TYPES = ('LightSetColor', 'LightSetPower', 'MultiZoneSetColorZones',
                'SetTileState64', 'LightGet', 'LightGetPower')


def make_bulbs(population):
    return [Bulb(spec, i) for i, spec in enumerate(population)]
