"""Stand-in for the part of the Flask API that web/front_end.py uses.

Flask is not installed (and not in the offline wheelhouse).  The stub records
routes registered on a Blueprint, dispatches URL paths with Flask/werkzeug's
rules for what front_end.py declares - static rules before variable ones, a
`<name>` (string converter) segment matches one non-empty segment without
'/', no trailing-slash redirects for rules declared without one - and records
(template name, context) for every render_template call.
"""
import sys
import types


class NotFound(Exception):
    pass


class Blueprint:
    def __init__(self, name, import_name, **_kw):
        self.name = name
        self.rules = []            # (segments, view function)

    def route(self, rule, **_options):
        def deco(fn):
            self.rules.append((rule, fn))
            return fn
        return deco

    def dispatch(self, path):
        """Returns the view's return value; raises NotFound."""
        if not path.startswith('/'):
            raise NotFound(path)
        best = None
        for rule, fn in self.rules:
            m = _match(rule, path)
            if m is None:
                continue
            weight = (0 if '<' not in rule else 1)
            if best is None or weight < best[0]:
                best = (weight, fn, m)
        if best is None:
            raise NotFound(path)
        return best[1](**best[2])


def _match(rule, path):
    if rule == '/':
        return {} if path == '/' else None
    rsegs = rule.split('/')[1:]
    psegs = path.split('/')[1:]
    if len(rsegs) != len(psegs):
        return None
    args = {}
    for r, p in zip(rsegs, psegs):
        if r.startswith('<') and r.endswith('>'):
            if p == '':
                return None
            args[r[1:-1].split(':')[-1]] = p
        elif r != p:
            return None
    return args


class _Headers(dict):
    def get(self, key, default=None):
        return dict.get(self, key, default)


class _Request:
    def __init__(self):
        self.headers = _Headers({'User-Agent': 'Mozilla/5.0 (X11; Linux)'})


request = _Request()
rendered = []            # (template, context) in call order


def render_template(template_name, **context):
    rendered.append((template_name, context))
    return ('rendered', template_name)


class Flask:
    def __init__(self, *_a, **_k):
        self.blueprints = []

    def register_blueprint(self, bp):
        self.blueprints.append(bp)

    def add_url_rule(self, *_a, **_k):
        pass


def install():
    if 'flask' in sys.modules and getattr(sys.modules['flask'], '_is_stub',
                                          False):
        return sys.modules['flask']
    mod = types.ModuleType('flask')
    mod._is_stub = True
    mod.Blueprint = Blueprint
    mod.render_template = render_template
    mod.request = request
    mod.Flask = Flask
    sys.modules['flask'] = mod
    return mod
