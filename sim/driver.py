"""Batch driver shared by all checks: seeded runs on all cores, aggregation,
minimisation, replay files, known findings, evidence, exit codes.

A check module provides:

  PROP            'C08'
  LEVEL           'exploration' | 'fault_enumeration'
  RULE            text: how cases are generated, what makes one distinct
  ASSUMPTIONS     list of strings
  COMPONENTS      {'real': [...], 'stub': [...]}
  runs_for(tier)  -> number of seeded runs
  gen(rng, tier, index)  -> scenario (JSON-able dict, includes 'policy')
  execute(scenario, chooser) -> dict(
        violations=[{'sig':..., 'msg':...}], digest, switch_digest,
        sim_time, steps, faults={kind: n}, probes={name: n}, shape=str,
        deviations=[...], harness_error=None|str, sample=...)
  shrink(scenario) -> iterable of smaller scenarios   (optional)
  extra_cases(tier) -> list of scenarios enumerated systematically (optional)

Exit codes: 0 held (KNOWN-FINDING lines allowed), 1 VIOLATION, 2 harness.
"""
import argparse
import concurrent.futures as cf
import faulthandler
import hashlib
import importlib
import json
import multiprocessing
import os
import random
import subprocess
import sys
import time
import traceback

from . import policy
from .core import STALL

VERIF = os.path.dirname(os.path.dirname(os.path.abspath(__file__)))
# Where replay files and evidence go.  The registered commands leave this
# unset (-> /verif); tools/run_seeded.py --scratch points it at a scratch
# directory so that trial runs against patched copies never touch the
# committed evidence.
OUT = os.environ.get('VERIF_OUT') or VERIF
KNOWN_FILE = os.path.join(VERIF, 'known_findings.json')


def h64(*parts):
    m = hashlib.sha256(repr(parts).encode()).digest()
    return int.from_bytes(m[:8], 'big')


def load_known(prop):
    try:
        with open(KNOWN_FILE) as f:
            data = json.load(f)
    except FileNotFoundError:
        return []
    return [e for e in data.get('findings', []) if e.get('property') == prop]


def match_known(known, sig):
    for e in known:
        if e.get('status') != 'known':
            continue
        pat = e['signature']
        if sig == pat or (pat.endswith('*') and sig.startswith(pat[:-1])):
            return e
    return None


# ---------------------------------------------------------------------------
def run_one(check, scenario, sched_seed=None, deviations=None):
    if deviations is not None:
        chooser = policy.ReplayChooser(deviations)
    else:
        chooser = policy.make_chooser(sched_seed, scenario['policy'])
    return check.execute(scenario, chooser)


def _worker(args):
    modname, verif_seed, tier, indices, extra = args
    faulthandler.dump_traceback_later(600, exit=True)
    check = importlib.import_module(modname)
    agg = new_agg()
    t0 = time.time()
    for idx in indices:
        run_seed = h64(verif_seed, check.PROP, idx)
        if extra is not None:
            scenario = extra[idx]
        else:
            srng = random.Random(h64(run_seed, 'scenario'))
            scenario = check.gen(srng, tier, idx)
        try:
            res = run_one(check, scenario, h64(run_seed, 'schedule'))
        except Exception:
            res = {'violations': [], 'harness_error': traceback.format_exc(),
                   'digest': '', 'switch_digest': '', 'sim_time': 0.0,
                   'steps': 0, 'faults': {}, 'probes': {}, 'shape': 'error',
                   'deviations': []}
        add_result(agg, idx, run_seed, scenario, res)
    agg['wall'] = time.time() - t0
    faulthandler.cancel_dump_traceback_later()
    return agg


def new_agg():
    return {'runs': 0, 'sim_time': 0.0, 'steps': 0, 'faults': {},
            'probes': {}, 'digests': set(), 'switch_digests': set(),
            'shapes': set(), 'nontrivial': set(), 'violations': [],
            'harness': [], 'samples': [], 'wall': 0.0, 'viol_runs': 0}


def add_result(agg, idx, run_seed, scenario, res):
    agg['runs'] += 1
    agg['sim_time'] += res.get('sim_time', 0.0)
    agg['steps'] += res.get('steps', 0)
    for k, v in res.get('faults', {}).items():
        agg['faults'][k] = agg['faults'].get(k, 0) + v
    for k, v in res.get('probes', {}).items():
        agg['probes'][k] = agg['probes'].get(k, 0) + v
    d = res.get('digest', '')
    if d:
        agg['digests'].add(d[:16])
    sd = res.get('switch_digest', '')
    if sd:
        agg['switch_digests'].add(sd[:16])
    agg['shapes'].add(res.get('shape', ''))
    if res.get('nontrivial', True) and d:
        agg['nontrivial'].add(d[:16])
    if res.get('harness_error'):
        agg['n_harness'] = agg.get('n_harness', 0) + 1
        if len(agg['harness']) < 5:
            agg['harness'].append({'index': idx, 'seed': run_seed,
                                   'error': res['harness_error'],
                                   'scenario': scenario})
    if res.get('violations'):
        agg['viol_runs'] += 1
        if len(agg['violations']) < 40:
            agg['violations'].append({
                'index': idx, 'seed': run_seed, 'scenario': scenario,
                'deviations': res.get('deviations', []),
                'violations': res['violations'],
                'digest': d})
    if len(agg['samples']) < 2 and res.get('sample') is not None:
        agg['samples'].append(res['sample'])


def merge(a, b):
    a['runs'] += b['runs']
    a['sim_time'] += b['sim_time']
    a['steps'] += b['steps']
    a['wall'] += b['wall']
    a['viol_runs'] += b['viol_runs']
    for key in ('faults', 'probes'):
        for k, v in b[key].items():
            a[key][k] = a[key].get(k, 0) + v
    for key in ('digests', 'switch_digests', 'shapes', 'nontrivial'):
        a[key] |= b[key]
    a['violations'].extend(b['violations'])
    a['harness'].extend(b['harness'])
    a['n_harness'] = a.get('n_harness', 0) + b.get('n_harness', 0)
    if len(a['samples']) < 4:
        a['samples'].extend(b['samples'][:4 - len(a['samples'])])


def run_batch(check, verif_seed, tier, n_runs, workers, wall_cap, extra=None):
    modname = check.__name__
    ctx = multiprocessing.get_context('fork')
    chunk = max(1, min(200, n_runs // (workers * 4) or 1))
    indices = list(range(n_runs))
    chunks = [indices[i:i + chunk] for i in range(0, n_runs, chunk)]
    agg = new_agg()
    t0 = time.time()
    skipped = 0
    broken = None
    with cf.ProcessPoolExecutor(max_workers=workers, mp_context=ctx) as ex:
        futs = []
        for c in chunks:
            futs.append(ex.submit(_worker,
                                  (modname, verif_seed, tier, c, extra)))
        for f in futs:
            remaining = wall_cap - (time.time() - t0)
            if remaining <= 0:
                if f.cancel():
                    skipped += 1
                    continue
                remaining = 60
            try:
                merge(agg, f.result(timeout=max(remaining, 60) + 600))
            except cf.CancelledError:
                skipped += 1
            except Exception as exn:          # worker died / timed out
                broken = '{}: {}'.format(type(exn).__name__, exn)
                break
        if broken:
            for f in futs:
                f.cancel()
            ex.shutdown(wait=False, cancel_futures=True)
    agg['elapsed'] = time.time() - t0
    agg['skipped_chunks'] = skipped
    agg['broken'] = broken
    return agg


# ---------------------------------------------------------------------------
# Minimisation
# ---------------------------------------------------------------------------
def _sigs(res):
    return {v['sig'] for v in res.get('violations', [])}


def _reproduce(check, scenario, deviations, sig, tries, seed_base):
    """Try the given deviations, then `tries` fresh random schedules."""
    try:
        res = run_one(check, scenario, deviations=deviations)
        if sig in _sigs(res):
            return res
    except Exception:
        return None
    for k in range(tries):
        try:
            res = run_one(check, scenario, h64(seed_base, k))
        except Exception:
            return None
        if sig in _sigs(res):
            return res
    return None


def minimise(check, scenario, deviations, sig, budget_s=40.0, seed_base=1):
    t_end = time.time() + budget_s
    before = {'deviations': len(deviations),
              'scenario_size': len(json.dumps(scenario))}
    best_s, best_d = scenario, list(deviations)
    shrink = getattr(check, 'shrink', None)
    # 1. scenario components
    if shrink is not None:
        progress = True
        while progress and time.time() < t_end:
            progress = False
            for cand in shrink(best_s):
                if time.time() >= t_end:
                    break
                res = _reproduce(check, cand, best_d, sig, 12, seed_base)
                if res is not None:
                    best_s, best_d = cand, list(res['deviations'])
                    progress = True
                    break
    # 2. schedule deviations (ddmin-style chunk removal)
    n = 2
    while len(best_d) >= 1 and time.time() < t_end:
        size = max(1, len(best_d) // n)
        removed = False
        for i in range(0, len(best_d), size):
            cand = best_d[:i] + best_d[i + size:]
            try:
                res = run_one(check, best_s, deviations=cand)
            except Exception:
                continue
            if sig in _sigs(res):
                best_d = list(res['deviations'])
                n = max(n - 1, 2)
                removed = True
                break
            if time.time() >= t_end:
                break
        if not removed:
            if size == 1:
                break
            n = min(n * 2, len(best_d))
    res = run_one(check, best_s, deviations=best_d)
    if sig not in _sigs(res):           # should not happen; fall back
        best_s, best_d = scenario, list(deviations)
        res = run_one(check, best_s, deviations=best_d)
    after = {'deviations': len(best_d),
             'scenario_size': len(json.dumps(best_s))}
    return best_s, best_d, res, {'before': before, 'after': after}


def write_replay(check, sig, msg, seed, scenario, deviations, digest, info,
                 tag=None):
    os.makedirs(os.path.join(OUT, 'replay'), exist_ok=True)
    name = '{}-{}.json'.format(check.PROP, tag if tag is not None else seed)
    path = os.path.join(OUT, 'replay', name)
    with open(path, 'w') as f:
        json.dump({'property': check.PROP, 'seed': seed, 'violation': sig,
                   'message': msg, 'scenario': scenario,
                   'schedule': [[i, c] for i, c in deviations],
                   'stalls': [i for i, c in deviations if c == STALL],
                   'digest': digest, 'minimised_from': info}, f, indent=1,
                  sort_keys=True)
    return path


def replay_file(check, path, quiet=False):
    with open(path) as f:
        rp = json.load(f)
    res = run_one(check, rp['scenario'], deviations=rp['schedule'])
    sigs = _sigs(res)
    same = rp['violation'] in sigs
    same_digest = (res.get('digest') == rp.get('digest'))
    if not quiet:
        print('replay {}: violation {} {}; digest {}'.format(
            path, rp['violation'],
            'reproduced' if same else 'NOT reproduced',
            'identical' if same_digest else 'differs'))
        for v in res.get('violations', []):
            print('  {}: {}'.format(v['sig'], v['msg']))
    return same, same_digest, res


def fresh_replay(check, path):
    """Replay in a fresh interpreter under another hash seed."""
    env = dict(os.environ)
    env['PYTHONHASHSEED'] = '12345'
    cmd = [sys.executable, os.path.join(VERIF, 'check'), check.PROP,
           '--replay', path]
    p = subprocess.run(cmd, env=env, capture_output=True, text=True,
                       timeout=300)
    return p.returncode == 1 and 'NOT reproduced' not in p.stdout \
        and 'digest identical' in p.stdout, p.stdout + p.stderr


# ---------------------------------------------------------------------------
def write_evidence(check, tier, seed, agg, n_viol, extra_cov=None):
    os.makedirs(os.path.join(OUT, 'evidence'), exist_ok=True)
    path = os.path.join(OUT, 'evidence', check.PROP + '.json')
    elapsed = max(agg.get('elapsed', 0.0), 1e-6)
    probes = dict(sorted(agg['probes'].items()))
    declared = getattr(check, 'PROBES', [])
    zero = [p for p in declared if not probes.get(p)]
    cov = {
        'evaluations': agg['runs'],
        'distinct_nontrivial': len(agg['nontrivial']),
        'rule': check.RULE,
        'samples': agg['samples'][:3] or ['(no sample recorded)'],
        'seeds': 'run k uses seed H(VERIF_SEED={}, {}, k), k in [0, {})'
                 .format(seed, check.PROP, agg['runs']),
        'runs_per_hour': int(agg['runs'] / elapsed * 3600),
        'simulated_seconds': round(agg['sim_time'], 3),
        'scheduler_steps': agg['steps'],
        'distinct_event_logs': len(agg['digests']),
        'event_log_set_digest': hashlib.sha256(
            ''.join(sorted(agg['digests'])).encode()).hexdigest()[:16],
        'distinct_interleavings': len(agg['switch_digests']),
        'distinct_scenario_shapes': len(agg['shapes']),
        'faults_fired': dict(sorted(agg['faults'].items())),
        'probes': probes,
        'probes_at_zero': zero,
        'components': check.COMPONENTS,
        'runs_with_violation': agg['viol_runs'],
        'inconclusive_runs': agg.get('n_harness', 0),
        'skipped_chunks_wall_cap': agg.get('skipped_chunks', 0),
        'exhaustive': False,
    }
    if extra_cov:
        cov.update(extra_cov)
    ev = {'property_id': check.PROP, 'tier': tier, 'seed': int(seed),
          'level': check.LEVEL, 'coverage': cov,
          'assumptions': check.ASSUMPTIONS,
          'wall_s': round(elapsed, 3), 'violations': n_viol}
    with open(path, 'w') as f:
        json.dump(ev, f, indent=1, sort_keys=True, default=str)
    return path


def main(check, argv=None):
    ap = argparse.ArgumentParser(prog='check ' + check.PROP)
    ap.add_argument('--tier', default=os.environ.get('VERIF_TIER', 'quick'),
                    choices=['quick', 'thorough'])
    ap.add_argument('--replay')
    ap.add_argument('--runs', type=int)
    ap.add_argument('--workers', type=int,
                    default=int(os.environ.get('VERIF_WORKERS', '0')) or
                    min(16, os.cpu_count() or 1))
    ap.add_argument('--seed', type=int,
                    default=int(os.environ.get('VERIF_SEED', '0') or 0))
    ap.add_argument('--no-minimise', action='store_true')
    ap.add_argument('--digests', action='store_true',
                    help='print per-run digests (determinism self-test)')
    args = ap.parse_args(argv)

    if args.replay:
        same, same_digest, res = replay_file(check, args.replay)
        if same:
            print('VIOLATION property={} replay={}'.format(
                check.PROP, args.replay))
            return 1
        return 0

    if args.digests:
        n = args.runs or 50
        # VERIF_DIGEST_ORDER=reverse runs the same indices backwards (printed
        # in index order): a run's event log must not depend on what the
        # process ran before it
        order = list(range(n))
        if os.environ.get('VERIF_DIGEST_ORDER') == 'reverse':
            order.reverse()
        lines = {}
        for idx in order:
            run_seed = h64(args.seed, check.PROP, idx)
            srng = random.Random(h64(run_seed, 'scenario'))
            scenario = check.gen(srng, args.tier, idx)
            res = run_one(check, scenario, h64(run_seed, 'schedule'))
            lines[idx] = (res.get('digest'), sorted(_sigs(res)))
        for idx in sorted(lines):
            print(idx, *lines[idx])
        return 0

    tier = args.tier
    n_runs = args.runs or check.runs_for(tier)
    wall_cap = getattr(check, 'WALL_CAP', {'quick': 150, 'thorough': 1500})[tier]
    t0 = time.time()
    agg = run_batch(check, args.seed, tier, n_runs, args.workers, wall_cap)
    extra_cov = {}
    extra_cases = getattr(check, 'extra_cases', None)
    if extra_cases is not None:
        cases = extra_cases(tier)
        if cases:
            agg2 = run_batch(check, args.seed, tier, len(cases),
                             args.workers, wall_cap, extra=cases)
            extra_cov['enumerated_cases'] = agg2['runs']
            extra_cov['enumerated_cases_total'] = len(cases)
            merge(agg, agg2)
            agg['broken'] = agg.get('broken') or agg2.get('broken')
            agg['skipped_chunks'] = (agg.get('skipped_chunks', 0) +
                                     agg2.get('skipped_chunks', 0))
    agg['elapsed'] = time.time() - t0

    known = load_known(check.PROP)
    by_sig = {}
    for v in agg['violations']:
        for viol in v['violations']:
            by_sig.setdefault(viol['sig'], []).append((v, viol))
    new_sigs = [s for s in sorted(by_sig) if match_known(known, s) is None]
    exit_code = 0
    reported = 0
    for sig in new_sigs[:4]:
        v, viol = min(by_sig[sig],
                      key=lambda p: len(json.dumps(p[0]['scenario'])))
        scenario, dev, digest = v['scenario'], v['deviations'], v['digest']
        info = {}
        if not args.no_minimise:
            try:
                scenario, dev, res, info = minimise(
                    check, scenario, dev, sig,
                    budget_s=30.0 if tier == 'quick' else 90.0,
                    seed_base=v['seed'])
                digest = res.get('digest')
                for vv in res['violations']:
                    if vv['sig'] == sig:
                        viol = vv
            except Exception:
                info = {'minimise_error': traceback.format_exc()}
        path = write_replay(check, sig, viol['msg'], v['seed'], scenario, dev,
                            digest, info,
                            tag='{}-{}'.format(sig.split('/', 1)[-1]
                                               .replace('/', '_'), v['seed']))
        ok, out = fresh_replay(check, path)
        print('violation {}: {}'.format(sig, viol['msg']))
        if not ok:
            print('HARNESS-ERROR replay of {} in a fresh interpreter did not '
                  'reproduce identically:\n{}'.format(path, out))
            exit_code = max(exit_code, 2)
            continue
        print('VIOLATION property={} replay={}'.format(check.PROP, path))
        reported += 1
        exit_code = 1 if exit_code == 0 else exit_code
    for sig in new_sigs[4:]:
        print('violation (not minimised) {}: {}'.format(
            sig, by_sig[sig][0][1]['msg']))
    for e in known:
        if e.get('status') != 'known':
            continue
        n = sum(len(by_sig[s]) for s in by_sig
                if match_known([e], s) is not None)
        print('KNOWN-FINDING: property={} {} [{}] observed_in_runs={}'.format(
            check.PROP, e['what_fails'], e['signature'], n))
    n_inconclusive = agg.get('n_harness', len(agg['harness']))
    if n_inconclusive:
        h = agg['harness'][0]
        tolerated = max(3, agg['runs'] // 500)
        if n_inconclusive <= tolerated:
            # a run that hit a step cap decides nothing; a handful per batch
            # is tolerated and reported, never counted as held or violated
            print('INCONCLUSIVE: {} of {} runs ended without a verdict '
                  '(first: run index {} seed {}: {})'.format(
                      n_inconclusive, agg['runs'], h['index'], h['seed'],
                      h['error'].strip().split('\n')[-1][:300]))
        else:
            print('HARNESS-ERROR {} of {} runs; first in run index {} seed '
                  '{}:\n{}'.format(n_inconclusive, agg['runs'], h['index'],
                                    h['seed'], h['error']))
            exit_code = max(exit_code, 2) if exit_code != 1 else 1
    if agg.get('broken'):
        print('HARNESS-ERROR worker pool: {}'.format(agg['broken']))
        exit_code = max(exit_code, 2) if exit_code != 1 else 1
    if agg['runs'] == 0:
        print('HARNESS-ERROR no runs executed')
        exit_code = 2
    path = write_evidence(check, tier, args.seed, agg, len(new_sigs),
                          extra_cov)
    print('{} {}: {} runs in {:.1f}s ({} runs/h), {:.0f} simulated s, '
          '{} distinct logs, {} distinct interleavings, violations: {} new / '
          '{} runs; evidence {}'.format(
              check.PROP, tier, agg['runs'], agg['elapsed'],
              int(agg['runs'] / max(agg['elapsed'], 1e-6) * 3600),
              agg['sim_time'], len(agg['digests']),
              len(agg['switch_digests']), len(new_sigs), agg['viol_runs'],
              path))
    return exit_code
