#!/bin/bash
# soak: run the quick tier of the given checks under many VERIF_SEED values;
# print only lines that need attention.  usage: soak.sh "<ids>" <first> <last>
if [ -n "$VP_RUN_REPO" ]; then export VERIF_REPO="$VP_RUN_REPO"; fi
ids=${1:-"C08 C09 C10 C12 C13 C17 C20"}
first=${2:-100}
last=${3:-110}
for seed in $(seq $first $last); do
  for id in $ids; do
    out=$(VERIF_SEED=$seed ./check $id --tier quick 2>&1)
    rc=$?
    echo "seed=$seed id=$id rc=$rc $(echo "$out" | grep -E "^$id " | cut -c1-160)"
    if [ $rc -ne 0 ] || echo "$out" | grep -q "INCONCLUSIVE"; then
      echo "$out" | grep -E "^(violation|VIOLATION|HARNESS|INCONCLUSIVE)" | cut -c1-700
    fi
  done
done
