#!/venv/bin/python
"""Confirm a sub-agent's seeded change in its scratch worktree and keep it.

usage: import_seeded.py <PROP> [N ...]      (worktree /tmp/wt-<PROP>)
Checks, in the worktree: patch applies; full test suite gives the baseline
outcome (186 passed, 1 failed, 1 error); demo reports a violation with the
patch and OK without.  On success copies patch, demo, notes and a meta.json
to /verif/seeded/<PROP>-m<N>/.
"""
import json
import os
import re
import shutil
import subprocess
import sys

prop = sys.argv[1]
wave = os.environ.get('WAVE', '')          # '' | 'w2' .. 'w5'
wt = '/tmp/{}-{}'.format(wave or 'wt', prop)
ns = sys.argv[2:] or ['1', '2', '3']


def sh(cmd, **kw):
    return subprocess.run(cmd, shell=True, cwd=wt, capture_output=True,
                          text=True, **kw)


def suite():
    for attempt in range(2):
        p = sh('/venv/bin/python -m pytest -q -p no:cacheprovider '
               '--timeout=900 --continue-on-collection-errors 2>&1 | tail -3')
        m = re.search(r'(\d+) failed, (\d+) passed.*?(\d+) error', p.stdout)
        got = m.groups() if m else p.stdout[-200:]
        if got == ('1', '186', '1'):
            return True, got
    return False, got


def demo(n):
    p = sh('/venv/bin/python _out/m{}_demo.py'.format(n), timeout=600)
    out = p.stdout + p.stderr
    viol = p.returncode != 0 or 'DEMO: VIOLATION' in out
    ok = p.returncode == 0 and 'DEMO: OK' in out and \
        'DEMO: VIOLATION' not in out
    return viol, ok, out[-300:]


assert not sh('git status --porcelain -uno').stdout.strip(), 'dirty worktree'
for n in ns:
    patch = '{}/_out/m{}.patch'.format(wt, n)
    if not os.path.exists(patch):
        print(prop, n, 'no patch')
        continue
    if sh('git apply --check ' + patch).returncode != 0:
        print(prop, n, 'patch does not apply')
        continue
    sh('git apply ' + patch)
    try:
        s_ok, s_got = suite()
        v1, _ok1, o1 = demo(n)
    finally:
        sh('git checkout -- .')
    _v0, ok0, o0 = demo(n)
    verdict = s_ok and v1 and ok0
    print('{} m{}: suite {} {} | demo with patch: {} | demo without: {} => {}'
          .format(prop, n, 'same' if s_ok else 'DIFFERS', s_got,
                  'violation' if v1 else 'no violation: ' + o1,
                  'ok' if ok0 else 'NOT ok: ' + o0,
                  'KEEP' if verdict else 'REJECT'))
    if not verdict:
        continue
    dst = '/verif/seeded/{}-{}m{}'.format(prop, wave, n)
    os.makedirs(dst, exist_ok=True)
    shutil.copy(patch, dst + '/patch.diff')
    shutil.copy('{}/_out/m{}_demo.py'.format(wt, n), dst + '/demo.py')
    md = '{}/_out/m{}.md'.format(wt, n)
    notes = open(md).read() if os.path.exists(md) else ''
    open(dst + '/notes.md', 'w').write(notes)
    json.dump({
        'property': prop,
        'source': 'independent sub-agent given only the property text and a '
                  'scratch worktree',
        'needs_to_manifest': notes.strip().split('\n')[0][:300],
        'confirmed': {
            'patch_applies_to_repo_head': True,
            'test_suite_with_patch': '186 passed, 1 failed, 1 error '
                                     '(= baseline)',
            'demo_with_patch': 'violation',
            'demo_without_patch': 'ok',
            'where': 'scratch worktree ' + wt + ' (removed afterwards)',
        },
        'checks_run': 'see detected_by (filled by tools/run_seeded.py runs)',
    }, open(dst + '/meta.json', 'w'), indent=1)
