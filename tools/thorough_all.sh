#!/bin/bash
# run the thorough tier of every check once; print the summary lines
if [ -n "$VP_RUN_REPO" ]; then export VERIF_REPO="$VP_RUN_REPO"; fi
for id in ${1:-C08 C09 C10 C12 C13 C17 C20}; do
  start=$(date +%s)
  out=$(./check $id --tier thorough 2>&1)
  rc=$?
  echo "id=$id rc=$rc wall=$(( $(date +%s) - start ))s"
  echo "$out" | grep -E "^(violation|VIOLATION|HARNESS|INCONCLUSIVE|KNOWN|$id )" | cut -c1-600
done
