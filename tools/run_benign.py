#!/venv/bin/python
"""Run every quick check against behaviour-preserving changes
(/verif/benign/<name>/patch.diff): every check must exit 0 (no false alarm).
/repo is always restored.  usage: run_benign.py [--runs N] [names...]"""
import argparse
import glob
import os
import subprocess
import sys
import time

ap = argparse.ArgumentParser()
ap.add_argument('--runs', type=int)
ap.add_argument('--scratch', action='store_true',
                help='apply the patches in a temporary worktree of /repo HEAD '
                'under /tmp and leave /repo alone')
ap.add_argument('--checks', help='comma-separated check ids (default all)')
ap.add_argument('names', nargs='*')
args = ap.parse_args()
REPO = '/repo'
ENV = dict(os.environ)
OUTDIR = '/verif'
if args.scratch:
    import tempfile
    REPO = tempfile.mkdtemp(prefix='benign-wt-', dir='/tmp')
    os.rmdir(REPO)
    subprocess.run(['git', '-C', '/repo', 'worktree', 'add', '--detach', '-q',
                    REPO, 'HEAD'], check=True)
    OUTDIR = tempfile.mkdtemp(prefix='benign-out-', dir='/tmp')
    ENV['VERIF_REPO'] = REPO
    ENV['VERIF_OUT'] = OUTDIR
dirs = sorted(glob.glob('/verif/benign/*/'))
if args.names:
    dirs = [d for d in dirs if os.path.basename(d.rstrip('/')) in args.names]
if subprocess.run(['git', '-C', REPO, 'status', '--porcelain', '-uno'],
                  capture_output=True, text=True).stdout.strip():
    sys.exit('/repo has local modifications; refusing to run')
bad = 0
total = 0
for d in dirs:
    name = os.path.basename(d.rstrip('/'))
    r = subprocess.run(['git', '-C', REPO, 'apply', d + 'patch.diff'],
                       capture_output=True, text=True)
    if r.returncode != 0:
        print(name, 'PATCH DOES NOT APPLY', r.stderr[:200])
        continue
    try:
        for cid in (args.checks.split(',') if args.checks else
                    ['C08', 'C09', 'C10', 'C12', 'C13', 'C17', 'C20']):
            cmd = ['/verif/check', cid, '--tier', 'quick']
            if args.runs:
                cmd += ['--runs', str(args.runs)]
            t0 = time.time()
            p = subprocess.run(cmd, capture_output=True, text=True,
                               cwd='/verif', env=ENV)
            total += 1
            lines = [ln for ln in p.stdout.split('\n')
                     if ln.startswith(('violation', 'HARNESS', 'INCONCL'))]
            flag = 'ok' if p.returncode == 0 else 'ALARM'
            if p.returncode != 0:
                bad += 1
            print('{:10s} {} exit={} {:4.0f}s {} {}'.format(
                name, cid, p.returncode, time.time() - t0, flag,
                ' | '.join(ln[:200] for ln in lines[:3])))
    finally:
        subprocess.run(['git', '-C', REPO, 'checkout', '--', '.'])
        for f in glob.glob(OUTDIR + '/replay/*.json'):
            os.remove(f)
if args.scratch:
    import shutil
    subprocess.run(['git', '-C', '/repo', 'worktree', 'remove', '--force',
                    REPO])
    shutil.rmtree(OUTDIR, ignore_errors=True)
print('{} alarms in {} check runs'.format(bad, total))
