#!/venv/bin/python
"""Apply a textual mutation to /repo, run a check, revert.  Usage:
   try_mutant.py <check id> <runs> <file> <old> <new> [<file> <old> <new> ...]
Never commits; always restores the files it touched."""
import subprocess
import sys

check, runs = sys.argv[1], sys.argv[2]
triples = sys.argv[3:]
saved = {}
try:
    for i in range(0, len(triples), 3):
        path, old, new = triples[i:i + 3]
        full = '/repo/' + path
        text = open(full).read()
        saved.setdefault(full, text)
        if old not in text:
            print('pattern not found in', path)
            sys.exit(3)
        open(full, 'w').write(text.replace(old, new, 1))
    p = subprocess.run(['/verif/check', check, '--runs', runs,
                        '--no-minimise'], capture_output=True, text=True)
    out = [ln for ln in p.stdout.split('\n')
           if ln.startswith(('violation', 'VIOLATION', 'HARNESS', check))]
    print('\n'.join(ln[:300] for ln in out[:8]))
    print('exit', p.returncode)
finally:
    for full, text in saved.items():
        open(full, 'w').write(text)
