#!/venv/bin/python
"""Self-check of the script generator (gen/scripts.py): every generated text
must compile with the repository's parser and run to its end on the
simulated LAN without the VM reporting an error, under every option mix the
checks use.  A generator that emitted ill-formed or non-terminating scripts
would turn into harness errors (or, worse, vacuous runs) inside the checks.

usage: tools/gen_selfcheck.py [N]     exit 0 = all fine, 1 = some text failed
"""
import os
import random
import sys
import warnings
from concurrent.futures import ProcessPoolExecutor
import multiprocessing

HERE = os.path.dirname(os.path.dirname(os.path.abspath(__file__)))
sys.path.insert(0, HERE)
if os.environ.get('VERIF_REPO'):
    sys.path.insert(0, os.environ['VERIF_REPO'])

warnings.filterwarnings('ignore', category=SyntaxWarning)

OPTION_MIXES = [
    {},
    {'reassign_after_get': True, 'max_statements': 12, 'units_raw': 0.1},
    {'matrix': False, 'units_raw': 0.0, 'reassign_after_get': True,
     'print': False, 'max_statements': 8},
    {'max_statements': 8, 'reassign_after_get': True, 'units_raw': 0.15,
     'p_delay': 0.5, 'delays': [0, 0.05, 0.2, 0.3]},
    {'max_statements': 9, 'units_raw': 0.1},
]


def one(seed):
    from gen import populations, scripts
    from sim import env, policy, world
    rng = random.Random(seed)
    pop = populations.gen_population(
        rng, 2, 4, ensure=('plain', 'matrix', 'mz')[:rng.randint(1, 3)])
    opts = dict(OPTION_MIXES[seed % len(OPTION_MIXES)])
    text, meta = scripts.gen_script(rng, pop, opts)
    res = {'seed': seed, 'text': text, 'features': meta.get('features', [])}

    def main(sim):
        from bardolph.controller.script_job import ScriptJob
        logs = env.capture_logs()
        with world.StdoutCapture():
            net, ls, ok = env.build_world(sim, pop, settings={
                'sleep_time': 0.1})
            job = ScriptJob.from_string(text)
            if job.program is None:
                res['problem'] = 'compile: ' + str(job.compile_errors)
                return
            job.execute()
            bad = [m for lv, m in logs.records
                   if lv in ('WARNING', 'ERROR', 'CRITICAL')]
            if bad:
                res['problem'] = 'run: ' + ' | '.join(bad[:3])
            res['datagrams'] = sum(len(b.record) for b in net.bulbs)
    pol = {'kind': 'seq', 'p_switch': 0.01, 'p_stall': 0.0, 'depth': 1,
           'est_len': 200}
    sim, out = world.run_sim(main, policy.make_chooser(seed, pol), gran='sync',
                             step_cap=600000)
    if out.status != 'ok':
        res['problem'] = 'outcome {}: {}'.format(out.status, out.detail)
    return res


def main(argv):
    n = int(argv[0]) if argv else 2000
    ctx = multiprocessing.get_context('fork')
    feats = {}
    bad = []
    with ProcessPoolExecutor(max_workers=os.cpu_count(),
                             mp_context=ctx) as ex:
        for res in ex.map(one, range(n), chunksize=20):
            for f in res['features']:
                feats[f] = feats.get(f, 0) + 1
            if 'problem' in res:
                bad.append(res)
    for res in bad[:8]:
        print('seed {}: {}\n{}\n'.format(res['seed'], res['problem'],
                                         res['text']))
    print('{} scripts, {} with a problem; features used: {}'.format(
        n, len(bad), sorted(feats.items())))
    return 1 if bad else 0


if __name__ == '__main__':
    sys.exit(main(sys.argv[1:]))
