#!/venv/bin/python
"""Run the registered quick checks against every kept seeded change.

For each /verif/seeded/<name>/ (patch.diff + meta.json): git apply to /repo,
run the check of the property it breaks (quick tier, optionally fewer runs),
record whether it raised a VIOLATION, and ALWAYS restore /repo afterwards
(git checkout -- . ; the patches only modify tracked files).
usage: run_seeded.py [--runs N] [--scratch] [--all-checks] [names...]

--scratch: leave /repo alone; apply each patch in a temporary git worktree of
/repo's HEAD under /tmp (removed afterwards), point the checks at it with
VERIF_REPO and send their replay/evidence output to a scratch directory
(VERIF_OUT).  Several such runs can go on side by side.
"""
import argparse
import glob
import json
import os
import subprocess
import sys
import time

ap = argparse.ArgumentParser()
ap.add_argument('--runs', type=int)
ap.add_argument('--all-checks', action='store_true',
                help='run every check, not only the one for the property')
ap.add_argument('--scratch', action='store_true')
ap.add_argument('--seed', type=int, help='VERIF_SEED for the checks')
ap.add_argument('--fast', action='store_true',
                help='no minimisation (only whether and how often a check '
                'fires is of interest)')
ap.add_argument('--checks', help='comma-separated check ids to run instead '
                'of the check of the property the change breaks')
ap.add_argument('names', nargs='*')
args = ap.parse_args()
REPO = '/repo'
ENV = dict(os.environ)
if args.scratch:
    import tempfile
    REPO = tempfile.mkdtemp(prefix='seeded-wt-', dir='/tmp')
    os.rmdir(REPO)
    subprocess.run(['git', '-C', '/repo', 'worktree', 'add', '--detach', '-q',
                    REPO, 'HEAD'], check=True)
    OUTDIR = tempfile.mkdtemp(prefix='seeded-out-', dir='/tmp')
    ENV['VERIF_REPO'] = REPO
    ENV['VERIF_OUT'] = OUTDIR
else:
    OUTDIR = '/verif'
dirs = sorted(glob.glob('/verif/seeded/*/'))
if args.names:
    dirs = [d for d in dirs if os.path.basename(d.rstrip('/')) in args.names]
if subprocess.run(['git', '-C', REPO, 'status', '--porcelain', '-uno'],
                  capture_output=True, text=True).stdout.strip():
    sys.exit('/repo has local modifications; refusing to run')
results = {}
for d in dirs:
    name = os.path.basename(d.rstrip('/'))
    meta = json.load(open(d + 'meta.json'))
    prop = meta['property']
    ids = ['C08', 'C09', 'C10', 'C12', 'C13', 'C17', 'C20'] \
        if args.all_checks else \
        (args.checks.split(',') if args.checks else [prop])
    r = subprocess.run(['git', '-C', REPO, 'apply', d + 'patch.diff'],
                       capture_output=True, text=True)
    if r.returncode != 0:
        print(name, 'PATCH DOES NOT APPLY', r.stderr[:200])
        continue
    try:
        for cid in ids:
            cmd = ['/verif/check', cid, '--tier', 'quick']
            if args.runs:
                cmd += ['--runs', str(args.runs)]
            if args.seed is not None:
                cmd += ['--seed', str(args.seed)]
            if args.fast:
                cmd += ['--no-minimise']
            t0 = time.time()
            p = subprocess.run(cmd, capture_output=True, text=True,
                               cwd='/verif', env=ENV)
            sigs = [ln.split(':')[0].replace('violation ', '')
                    for ln in p.stdout.split('\n')
                    if ln.startswith('violation ')]
            results[(name, cid)] = (p.returncode, sigs)
            import re
            m = re.search(r'violations: \d+ new / (\d+) runs', p.stdout)
            print('{:28s} {} exit={} {:5.0f}s {} hits={}'.format(
                name, cid, p.returncode, time.time() - t0, sigs[:4],
                m.group(1) if m else '?'), flush=True)
    finally:
        subprocess.run(['git', '-C', REPO, 'checkout', '--', '.'])
        for f in glob.glob(OUTDIR + '/replay/*.json'):
            os.remove(f)
if args.scratch:
    import shutil
    subprocess.run(['git', '-C', '/repo', 'worktree', 'remove', '--force',
                    REPO])
    shutil.rmtree(OUTDIR, ignore_errors=True)
caught = sum(1 for (n, c), (rc, s) in results.items() if rc == 1)
print('caught {} of {}'.format(caught, len(results)))
