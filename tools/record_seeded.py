#!/venv/bin/python
"""Fold the output of tools/run_seeded.py runs into seeded/RESULTS.txt and
into the `detected_by` field of each seeded/<name>/meta.json.

usage: record_seeded.py LOG [LOG ...]     (later logs win for the same
(change, check) pair; a change counts as caught if some check exits 1)
"""
import ast
import json
import os
import re
import sys

ROW = re.compile(r'^(\S+)\s+(C\d\d) exit=(\d+)\s+(\d+)s (\[.*?\])(?: hits=\S+)?\s*$')
rows = {}
for path in sys.argv[1:]:
    for ln in open(path):
        m = ROW.match(ln.rstrip('\n'))
        if m:
            name, cid, rc, secs, sigs = m.groups()
            rows[(name, cid)] = (int(rc), int(secs), ast.literal_eval(sigs),
                                 ln.rstrip('\n'))
names = sorted({n for n, _c in rows})
out = []
caught = 0
for name in names:
    d = '/verif/seeded/{}/'.format(name)
    if not os.path.isdir(d):
        continue
    meta = json.load(open(d + 'meta.json'))
    mine = {c: v for (n, c), v in rows.items() if n == name}
    hit = [c for c, v in sorted(mine.items()) if v[0] == 1]
    own = meta['property']
    best = own if own in hit else (hit[0] if hit else own)
    if best in mine:
        rc, _s, sigs, _ln = mine[best]
        meta['detected_by'] = {'check': best,
                               'command': './check {} --tier quick'.format(
                                   best),
                               'exit': rc, 'violation_signatures': sigs}
    if hit:
        caught += 1
    json.dump(meta, open(d + 'meta.json', 'w'), indent=1)
    for c, v in sorted(mine.items()):
        out.append(v[3])
out.append('caught {} of {} seeded changes (quick tier, final checks)'.format(
    caught, len([n for n in names if os.path.isdir('/verif/seeded/' + n)])))
open('/verif/seeded/RESULTS.txt', 'w').write('\n'.join(out) + '\n')
print(out[-1])
