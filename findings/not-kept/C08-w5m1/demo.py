import os, sys; sys.path.insert(0, os.getcwd())

"""
has_jobs() must not say "no jobs" while a queued job has still to run or is
running. The observer thread is parked (from here, no hooks in the source) at
the moment it asks the queue for its length; meanwhile the job moves from the
queue to the running slot. Ground truth comes from the jobs themselves.
"""

import collections
import threading

from bardolph.lib import job_control

WAIT = 10.0
problems = []


def need(flag, what):
    if not flag:
        print("DEMO: ERROR - timed out waiting for", what)
        sys.exit(2)


class GateJob(job_control.Job):
    def __init__(self):
        self.started = threading.Event()
        self.release = threading.Event()
        self.finished = threading.Event()

    def execute(self):
        self.started.set()
        self.release.wait(WAIT)
        self.finished.set()


class Parking:
    def __init__(self):
        self.thread = None
        self.armed = False
        self.at_len = threading.Event()
        self.go = threading.Event()


class ParkingDeque(collections.deque):
    parking = None

    def __len__(self):
        p = self.parking
        if (p is not None and p.armed
                and threading.current_thread() is p.thread):
            p.armed = False
            p.at_len.set()
            p.go.wait(WAIT)
        return super().__len__()


def new_control():
    jc = job_control.JobControl()
    jc._queue = ParkingDeque()
    jc._queue.parking = Parking()
    return jc


def observe(jc, result):
    result.append(jc.has_jobs())


def start_observer(jc):
    p = jc._queue.parking
    result = []
    th = threading.Thread(target=observe, args=(jc, result))
    p.thread = th
    p.armed = True
    th.start()
    return th, result


def drain(jc, *jobs):
    for job in jobs:
        job.release.set()
    for job in jobs:
        need(job.finished.wait(WAIT), "a job to finish")
    for _ in range(1000):
        if not jc.has_jobs():
            break
        threading.Event().wait(0.01)
    if jc.has_jobs():
        problems.append("has_jobs() still True after everything finished")


def scenario_single():
    """One job; the poll overlaps the add_job() that starts it."""
    jc = new_control()
    p = jc._queue.parking
    th, result = start_observer(jc)
    need(p.at_len.wait(WAIT), "the observer to reach the queue")

    job = GateJob()
    jc.add_job(job, 'only')
    need(job.started.wait(WAIT), "the job to start")

    p.go.set()
    th.join(WAIT)
    need(result, "has_jobs() to return")
    if not job.finished.is_set() and result[0] is not True:
        problems.append(
            "single: has_jobs() == {} while job 'only' is executing".format(
                result[0]))
    drain(jc, job)


def scenario_handover():
    """Two jobs; the poll overlaps the hand-over from the first to the
    second in the completion callback."""
    jc = new_control()
    p = jc._queue.parking

    in_callback = threading.Event()
    callback_go = threading.Event()
    real_run_next = jc._run_next_job
    main_thread = threading.current_thread()

    def parked_run_next():
        # Only the completion callback (a job thread, lock not held at this
        # point) is parked; add_job's nested call goes straight through.
        if (threading.current_thread() is not main_thread
                and not in_callback.is_set()):
            in_callback.set()
            callback_go.wait(WAIT)
        real_run_next()

    jc._run_next_job = parked_run_next

    first, second = GateJob(), GateJob()
    jc.add_job(first, 'first')
    jc.add_job(second, 'second')
    need(first.started.wait(WAIT), "the first job to start")
    first.release.set()
    need(in_callback.wait(WAIT), "the completion callback")
    # Now: first is done, the running slot is empty, second is in the queue.

    th, result = start_observer(jc)
    need(p.at_len.wait(WAIT), "the observer to reach the queue")
    callback_go.set()
    need(second.started.wait(WAIT), "the second job to start")

    p.go.set()
    th.join(WAIT)
    need(result, "has_jobs() to return")
    if not second.finished.is_set() and result[0] is not True:
        problems.append(
            "handover: has_jobs() == {} while job 'second' is "
            "executing".format(result[0]))
    drain(jc, first, second)


scenario_single()
scenario_handover()

if problems:
    for line in problems:
        print(line)
    print("DEMO: VIOLATION")
    sys.exit(1)
print("DEMO: OK")
