"""
m2 demo: a bulb that has stopped answering is eventually dropped by the
refresh thread (LightSet.refresh -> _garbage_collect).  A script that addresses
the bulb's group while that is going on must keep running, and the other
devices must get their commands.

The interleaving is forced from here: LightSet._remove_memberships is wrapped
so that the refreshing thread parks inside it, for the vanished bulb only,
while the script runs on the main thread.

Run:  cd /tmp/w4-C12 && /venv/bin/python _out/m2_demo.py
"""
import os, sys; sys.path.insert(0, os.getcwd())
import logging
import threading

import lifxlan
from lifxlan.errors import WorkflowException


# --------------------------------------------------------------------------
# A tiny simulated LAN that stands in for lifxlan.LifxLAN and its devices.
# --------------------------------------------------------------------------
class Net:
    def __init__(self):
        self.devices = []
        self.log = []     # (label, request, args, answered)
        self.silent = {}  # (label, request) -> number of attempts to drop

    def attempt(self, dev, request, *args):
        key = (dev.label, request)
        drop = self.silent.get(key, 0) > 0
        if drop:
            self.silent[key] -= 1
        self.log.append((dev.label, request, args, not drop))
        if drop:
            raise WorkflowException(
                'no answer from {} to {}'.format(dev.label, request))

    def sent(self, label, request):
        return [e for e in self.log if e[0] == label and e[1] == request]


class Dev:
    def __init__(self, net, label, group, location):
        self.net, self.label = net, label
        self.group, self.location = group, location
        self.color = [1000, 2000, 3000, 3500]

    def get_label(self):
        self.net.attempt(self, 'get_label'); return self.label

    def get_group(self):
        self.net.attempt(self, 'get_group'); return self.group

    def get_location(self):
        self.net.attempt(self, 'get_location'); return self.location

    def get_product_features(self):
        return {'color': True, 'multizone': False, 'matrix': False}

    def get_product_name(self):
        return 'Fake bulb'

    def get_color(self):
        self.net.attempt(self, 'get_color'); return list(self.color)

    def set_color(self, color, duration=0, rapid=False):
        self.net.attempt(self, 'set_color', list(color), duration)

    def get_power(self):
        self.net.attempt(self, 'get_power'); return 65535

    def set_power(self, power, duration=0, rapid=False):
        self.net.attempt(self, 'set_power', power, duration)


class FakeLan:
    net = None

    def __init__(self, num_lights=None, verbose=False):
        pass

    def get_lights(self):
        return list(FakeLan.net.devices)

    def set_color_all_lights(self, color, duration=0, rapid=False):
        FakeLan.net.log.append(
            ('*', 'set_color', (list(color), duration), True))

    def set_power_all_lights(self, power, duration=0, rapid=False):
        FakeLan.net.log.append(('*', 'set_power', (power, duration), True))


def install(net):
    FakeLan.net = net
    lifxlan.LifxLAN = FakeLan
    from bardolph.controller import i_controller, lifx_lan_api, light_set
    from bardolph.fakes import fake_clock
    from bardolph.lib import injection, log_config, settings, std_out_output
    from bardolph.runtime import runtime_module
    injection.configure()
    settings.using({
        'log_level': logging.CRITICAL, 'log_to_console': True,
        'single_light_discover': True, 'use_fakes': False,
        'light_gc_time': 300, 'sleep_time': 0.0}).configure()
    log_config.configure()
    fake_clock.configure()
    std_out_output.configure()
    runtime_module.configure()
    lifx_lan_api.configure()
    lights = light_set.LightSet()
    injection.bind_instance(lights).to(i_controller.LightSet)
    return lights


def run(text):
    from bardolph.parser.parse import Parser
    from bardolph.vm.machine import Machine
    parser = Parser()
    assert parser.parse(text), parser.get_errors()
    machine = Machine()
    machine.reset()
    machine.run(parser.get_program())


# --------------------------------------------------------------------------
problems = []


def expect(what, actual, wanted):
    if actual != wanted:
        problems.append('{}: got {!r}, wanted {!r}'.format(
            what, actual, wanted))


SCRIPT = ('hue 120 saturation 50 brightness 25 kelvin 2700 duration 0 '
          'set group "Furniture" set location "Home" on "Top"')

net = Net()
lamp = Dev(net, 'Lamp', 'Furniture', 'Home')
net.devices = [Dev(net, 'Top', 'Pole', 'Home'),
               Dev(net, 'Desk', 'Furniture', 'Home'), lamp]
lights = install(net)
expect('first discovery', lights.discover(), True)

# ordinary use: everybody is there
net.log.clear()
run(SCRIPT)
expect('before: set_color at Desk', len(net.sent('Desk', 'set_color')), 2)
expect('before: set_color at Lamp', len(net.sent('Lamp', 'set_color')), 2)
expect('before: set_color at Top', len(net.sent('Top', 'set_color')), 1)
expect('before: set_power at Top', len(net.sent('Top', 'set_power')), 1)

# The lamp is unplugged: it no longer answers the discovery broadcast, and
# it was last heard of an hour ago.
net.devices.remove(lamp)
lights.get_light('Lamp')._birth -= 3600.0

# Park the refreshing thread while it is busy dropping the lamp.
from bardolph.controller.light_set import LightSet
original = LightSet.__dict__['_remove_memberships'].__func__
parked = threading.Event()
release = threading.Event()


def parking_remove(light, target_dict):
    if (light.get_name() == 'Lamp' and not parked.is_set()
            and threading.current_thread().name == 'discovery'):
        parked.set()
        release.wait(20)
    return original(light, target_dict)


LightSet._remove_memberships = staticmethod(parking_remove)

refresh_errors = []


def refresher():
    try:
        lights.refresh()
    except Exception as ex:
        refresh_errors.append(ex)


thread = threading.Thread(target=refresher, name='discovery', daemon=True)
thread.start()
if not parked.wait(20):
    problems.append('the refresh never got to dropping the lamp')

# the script runs while the lamp is half way out
net.log.clear()
try:
    run(SCRIPT)
except Exception as ex:
    problems.append('Machine.run raised {}: {}'.format(type(ex).__name__, ex))
expect('during: set_color at Desk', len(net.sent('Desk', 'set_color')), 2)
expect('during: set_color at Top', len(net.sent('Top', 'set_color')), 1)
expect('during: set_power at Top', len(net.sent('Top', 'set_power')), 1)

release.set()
thread.join(20)
LightSet._remove_memberships = staticmethod(original)
expect('refresh errors', refresh_errors, [])

# afterwards the lamp is simply unknown
expect('lights afterwards', list(lights.get_light_names()), ['Desk', 'Top'])
expect('group afterwards',
       list(lights.get_group_lights('Furniture')), ['Desk'])
net.log.clear()
run(SCRIPT + ' on "Lamp" off "Desk"')
expect('after: set_color at Desk', len(net.sent('Desk', 'set_color')), 2)
expect('after: set_color at Lamp', len(net.sent('Lamp', 'set_color')), 0)
expect('after: set_power at Top', len(net.sent('Top', 'set_power')), 1)
expect('after: set_power at Desk', len(net.sent('Desk', 'set_power')), 1)

if problems:
    for problem in problems:
        print('  ' + problem)
    print('DEMO: VIOLATION')
    sys.exit(1)
print('DEMO: OK')
